(** * Driver: one recorded invocation in, one JSON line out (extracted to OCaml) *)
From Coq Require Import List String Ascii Bool Arith.
From Entrait Require Import Tok Sexp Syn Tie Decode Opts Split FnParams Convert Codegen Expand Show Proj Proj2 Proj3 Proj4 Known.
Import ListNotations.
Local Open Scope string_scope.
Local Open Scope list_scope.

Fixpoint first_diff (a b : toks) (i : nat) : option nat :=
  match a, b with
  | [], [] => None
  | x :: xs, y :: ys => if tt_eqb x y then first_diff xs ys (S i) else Some i
  | _, _ => Some i
  end.

Definition kind_name (k : kind) : string :=
  match k with KTrait => "trait" | KImpl => "impl" | KMod => "mod" | KFn => "fn" end.

Definition input_kind (i : input) : option kind :=
  match i with
  | InFn _ _ _ | InFnErr _ => Some KFn
  | InTrait _ _ | InTraitErr _ => Some KTrait
  | InImpl _ _ _ _ _ _ | InImplErr _ => Some KImpl
  | InMod _ _ _ _ _ | InModErr _ => Some KMod
  | InHeadErr => None
  end.

Definition kind_eqb (a b : kind) : bool :=
  match a, b with
  | KTrait, KTrait | KImpl, KImpl | KMod, KMod | KFn, KFn => true
  | _, _ => false
  end.

(** does the real output look like a [compile_error!] invocation, and with which message *)
Definition real_error_msg (ts : toks) : option string :=
  match ts with
  | [TP ":"%char; TP ":"%char; TId "core"; TP ":"%char; TP ":"%char; TId "compile_error"; TP "!"%char; TG _ [TLit m]] => Some m
  | _ => None
  end.

(** string literal canonical form used by synx: Rust's [{:?}] of the value *)
Definition quote_msg (m : string) : string := """" +++ json_escape m +++ """".

Definition bit (b : bool) : string := if b then "1" else "0".

(** per property: app det holds(real) alpha-equal holds(model) *)
Definition view_pair (real model : view) : string :=
  bit (v_app real || v_app model) +++ bit (v_det real) +++ bit (v_holds real) +++
  bit (toks_list_eqb (v_alpha real) (v_alpha model) && Bool.eqb (v_app real) (v_app model)) +++ bit (v_holds model).

Definition real_class (r : real_out) : oclass :=
  match r with
  | RPanic => CPanic
  | ROut ts _ => match real_error_msg ts with
                 | Some m => CError (Some m)
                 | None => CTokens
                 end
  end.

Definition model_class (m : outcome) : oclass :=
  match m with
  | OTokens _ => CTokens
  | OError (EMsg m) => CError (Some (quote_lit m))
  | OError ESyn => CError None
  | OPanic _ => CPanic
  | OOut _ => CError None
  end.

(** C15's alpha ignores the text of syn's own messages (not modelled) *)
Definition c15_views (cx : ctx) (real : real_out) (model : outcome) (parsable : bool) : view * view :=
  let rc := match real_class real, model_class model with
            | CError (Some _), CError None => CError None
            | x, _ => x
            end in
  (view_C15 cx rc parsable, view_C15 cx (model_class model) true).

Definition views_json (cx : ctx) (c : case) (model : outcome) (model_items : option (list item)) : list (string * string) :=
  let exact := match model, c_real c with
               | OTokens mts, ROut rts _ => toks_eqb mts rts
               | _, _ => false
               end in
  (* the implementation's items: the model's when the tokens are identical, otherwise what syn parsed
     from the real tokens provided they print back to exactly those tokens *)
  let real_items : option (list item) :=
    match c_real c with
    | ROut rts parsed =>
        match real_error_msg rts with
        | Some _ => None
        | None => if exact then model_items
                  else match parsed with
                       | Some its => if toks_eqb (print_items its) rts then Some its else None
                       | None => None
                       end
        end
    | RPanic => None
    end in
  let parsable := match c_real c with
                  | ROut rts (Some its) => toks_eqb (print_items its) rts
                  | ROut _ None => false
                  | RPanic => true
                  end in
  let on_items (f : ctx -> list item -> view) : string :=
    match real_items, model_items with
    | Some ri, Some mi => view_pair (f cx ri) (f cx mi)
    | Some ri, None => view_pair (f cx ri) na
    | None, Some mi =>
        (* the model expanded, the implementation did not (error / panic / unparsable) *)
        let m := f cx mi in
        view_pair (mkView (v_app m) false false []) m
    | None, None => view_pair na na
    end in
  let c02 :=
    match c_real c, model with
    | ROut rts _, OTokens mts =>
        match real_error_msg rts with
        | Some _ => let m := view_C02 cx (c_input_toks c) mts in view_pair (mkView (v_app m) false false []) m
        | None => view_pair (view_C02 cx (c_input_toks c) rts) (view_C02 cx (c_input_toks c) mts)
        end
    | ROut rts _, _ =>
        match real_error_msg rts with
        | Some _ => view_pair na na
        | None => view_pair (view_C02 cx (c_input_toks c) rts) na
        end
    | RPanic, OTokens mts => let m := view_C02 cx (c_input_toks c) mts in view_pair (mkView (v_app m) false false []) m
    | RPanic, _ => view_pair na na
    end in
  let methods := match real_items with
                 | Some ri => match parts (c_input c) ri with
                              | Some (GFn _ tr _ | GMod _ _ _ _ tr _ _ _ | GTrait tr _ _) =>
                                  map (fun '(_, s) => jstr (s_name s)) (trait_sigs tr)
                              | Some (GImpl _ im) => map (fun '(_, s, _) => jstr (s_name s)) (impl_fns im)
                              | None => []
                              end
                 | None => []
                 end in
  let '(r15, m15) := c15_views cx (c_real c) model parsable in
  map (fun '(id, f) => (id, jstr (on_items f))) item_views ++
  [("C02", jstr c02); ("C15", jstr (view_pair r15 m15)); ("parsable", jbool parsable); ("methods", jlist methods);
   ("known", jobj [("C02", jbool (known_C02 (c_input c))); ("C03", jbool (known_C03 cx)); ("C09", jbool (known_C09 (c_input c)))])].

Definition run_case (c : case) : string :=
  let v := match variant_of_string (c_variant c) with Some v => v | None => VEntrait end in
  let classified := classify (c_input_toks c) in
  let kind_ok := match classified, input_kind (c_input c) with
                 | Ok (k, _, _), Some k' => kind_eqb k k'
                 | Err _, None => true
                 | _, _ => false
                 end in
  let roundtrip := match print_input (c_input c) with
                   | Some ts => toks_eqb ts (c_input_toks c)
                   | None => false
                   end in
  let model_items := expand_items v (c_attr c) (c_input c) in
  let model := match model_items with
               | Ok items => OTokens (print_items items)
               | Err e => OError e
               | Panic s => OPanic s
               | OutOfDomain w => OOut w
               end in
  let cx := mkCtx v (c_attr c) (c_input c) in
  let views := views_json cx c model (match model_items with Ok its => Some its | _ => None end) in
  let common := [("site", jstr (c_site c)); ("variant", jstr (c_variant c));
                 ("kind", jstr (match input_kind (c_input c) with Some k => kind_name k | None => "none" end));
                 ("kind_ok", jbool kind_ok); ("roundtrip", jbool roundtrip);
                 ("fields_ok", jbool (input_fields_ok (c_input c)))] in
  let verdict :=
    match model, c_real c with
    | OTokens mts, ROut rts _ =>
        match first_diff mts rts 0 with
        | None => [("agree", jbool true); ("class", jstr "tokens")]
        | Some i => [("agree", jbool false); ("class", jstr "tokens"); ("diff_at", nat_str i);
                     ("model", jstr (show_toks mts)); ("real", jstr (show_toks rts))]
        end
    | OError e, ROut rts _ =>
        match real_error_msg rts, e with
        | Some m, EMsg m' =>
            if String.eqb m (quote_msg m') then [("agree", jbool true); ("class", jstr "error"); ("msg", jstr m')]
            else [("agree", jbool false); ("class", jstr "error"); ("model", jstr (quote_msg m')); ("real", jstr m)]
        | Some m, ESyn => [("agree", jbool true); ("class", jstr "synerror"); ("msg", jstr m)]
        | None, EMsg m' => [("agree", jbool false); ("class", jstr "error"); ("model", jstr m'); ("real", jstr (show_toks rts))]
        | None, ESyn => [("agree", jbool false); ("class", jstr "synerror"); ("model", jstr "syn error"); ("real", jstr (show_toks rts))]
        end
    | OPanic site, RPanic => [("agree", jbool true); ("class", jstr "panic"); ("msg", jstr site)]
    | OPanic site, ROut rts _ => [("agree", jbool false); ("class", jstr "panic"); ("model", jstr site); ("real", jstr (show_toks rts))]
    | OTokens mts, RPanic => [("agree", jbool false); ("class", jstr "tokens"); ("model", jstr (show_toks mts)); ("real", jstr "PANIC")]
    | OError _, RPanic => [("agree", jbool false); ("class", jstr "error"); ("model", jstr "error"); ("real", jstr "PANIC")]
    | OOut w, _ => [("agree", jbool false); ("class", jstr "out_of_domain"); ("model", jstr w)]
    end in
  jobj (common ++ verdict ++ views).

Definition run_line (line : string) : string :=
  match read_sexp line with
  | None => jobj [("error", jstr "unreadable s-expression")]
  | Some s =>
      match d_case s with
      | Some c => run_case c
      | None =>
          match s with
          | SList (SAtom tag :: SStr v :: SStr site :: _) =>
              jobj [("error", jstr ("undecodable: " +++ tag)); ("site", jstr site); ("variant", jstr v)]
          | _ => jobj [("error", jstr "undecodable case")]
          end
      end
  end.
