(** * Tok: token trees (proc_macro2::TokenTree modulo spans and punct spacing) *)
From Coq Require Import List String Ascii Bool Arith Lia.
Import ListNotations.
Local Open Scope list_scope.

Infix "+++" := String.append (at level 60, right associativity).

Inductive delim := Paren | Brace | Bracket | NoDelim.

(** Punctuation is one character per token (so [::] is [TP ":"; TP ":"], ['a] is [TP "'"; TId "a"]).
    String literals are canonicalised by value, every other literal is its source text. *)
Inductive tt :=
| TId (s : string)
| TP (c : ascii)
| TLit (s : string)
| TG (d : delim) (ts : list tt).

Definition toks := list tt.

Definition delim_eqb (a b : delim) : bool :=
  match a, b with
  | Paren, Paren | Brace, Brace | Bracket, Bracket | NoDelim, NoDelim => true
  | _, _ => false
  end.

Fixpoint tt_eqb (a b : tt) {struct a} : bool :=
  match a, b with
  | TId x, TId y => String.eqb x y
  | TP x, TP y => Ascii.eqb x y
  | TLit x, TLit y => String.eqb x y
  | TG d1 l1, TG d2 l2 =>
      delim_eqb d1 d2 &&
      (fix go (l1 l2 : list tt) {struct l1} : bool :=
         match l1, l2 with
         | [], [] => true
         | x :: xs, y :: ys => tt_eqb x y && go xs ys
         | _, _ => false
         end) l1 l2
  | _, _ => false
  end.

Fixpoint toks_eqb (l1 l2 : toks) : bool :=
  match l1, l2 with
  | [], [] => true
  | x :: xs, y :: ys => tt_eqb x y && toks_eqb xs ys
  | _, _ => false
  end.

(** Strong induction principle for the nested type. *)
Section tt_ind_strong.
  Variable P : tt -> Prop.
  Hypothesis HId : forall s, P (TId s).
  Hypothesis HP : forall c, P (TP c).
  Hypothesis HLit : forall s, P (TLit s).
  Hypothesis HG : forall d ts, Forall P ts -> P (TG d ts).
  Fixpoint tt_ind' (t : tt) : P t :=
    match t with
    | TId s => HId s
    | TP c => HP c
    | TLit s => HLit s
    | TG d ts =>
        HG d ts ((fix go (l : list tt) : Forall P l :=
                    match l with
                    | [] => Forall_nil P
                    | x :: xs => Forall_cons x (tt_ind' x) (go xs)
                    end) ts)
    end.
End tt_ind_strong.

(** Small constructors used all over the model. *)
Definition pc (s : string) : tt :=
  match s with
  | String c _ => TP c
  | EmptyString => TP " "%char
  end.

Definition is_id (name : string) (t : tt) : bool :=
  match t with TId s => String.eqb s name | _ => false end.
Definition is_p (c : string) (t : tt) : bool := tt_eqb t (pc c).

Definition path_sep : toks := [pc ":"; pc ":"].
Definition comma : tt := pc ",".

(** [join sep [a;b;c]] = a ++ sep ++ b ++ sep ++ c *)
Fixpoint join (sep : toks) (l : list toks) : toks :=
  match l with
  | [] => []
  | [x] => x
  | x :: xs => x ++ sep ++ join sep xs
  end.

Definition first_char (s : string) : option ascii :=
  match s with String c _ => Some c | EmptyString => None end.

Definition is_lower (c : ascii) : bool :=
  let n := nat_of_ascii c in (97 <=? n) && (n <=? 122).

Fixpoint str_mem (s : string) (l : list string) : bool :=
  match l with
  | [] => false
  | x :: xs => String.eqb s x || str_mem s xs
  end.

Fixpoint starts_with (pre s : string) : bool :=
  match pre, s with
  | EmptyString, _ => true
  | String a p, String b r => Ascii.eqb a b && starts_with p r
  | _, _ => false
  end.

Fixpoint drop_str (n : nat) (s : string) : string :=
  match n, s with
  | O, _ => s
  | S k, String _ r => drop_str k r
  | S _, EmptyString => EmptyString
  end.
