(** * Show: token lists as text, JSON helpers (diagnostics only; not part of any theorem) *)
From Coq Require Import List String Ascii Bool Arith.
From Entrait Require Import Tok.
Import ListNotations.
Local Open Scope string_scope.

Fixpoint concat_str (l : list string) : string :=
  match l with
  | [] => EmptyString
  | x :: xs => x +++ concat_str xs
  end.

Fixpoint show_tt (t : tt) : string :=
  match t with
  | TId s => s
  | TP c => String c EmptyString
  | TLit s => s
  | TG d ts =>
      let inner := (fix go (l : list tt) : string :=
                      match l with
                      | [] => EmptyString
                      | [x] => show_tt x
                      | x :: xs => show_tt x +++ " " +++ go xs
                      end) ts in
      match d with
      | Paren => "(" +++ inner +++ ")"
      | Brace => "{" +++ inner +++ "}"
      | Bracket => "[" +++ inner +++ "]"
      | NoDelim => "<<" +++ inner +++ ">>"
      end
  end.

Fixpoint show_toks (l : toks) : string :=
  match l with
  | [] => EmptyString
  | [x] => show_tt x
  | x :: xs => show_tt x +++ " " +++ show_toks xs
  end.

Fixpoint json_escape (s : string) : string :=
  match s with
  | EmptyString => EmptyString
  | String c r =>
      let n := nat_of_ascii c in
      if Nat.eqb n 34 then String "\"%char (String c (json_escape r))
      else if Nat.eqb n 92 then String "\"%char (String c (json_escape r))
      else if Nat.ltb n 32 then String " "%char (json_escape r)
      else String c (json_escape r)
  end.

Definition jstr (s : string) : string := """" +++ json_escape s +++ """".
Definition jbool (b : bool) : string := if b then "true" else "false".

Fixpoint jfields (l : list (string * string)) : string :=
  match l with
  | [] => EmptyString
  | [(k, v)] => jstr k +++ ":" +++ v
  | (k, v) :: rest => jstr k +++ ":" +++ v +++ "," +++ jfields rest
  end.
Definition jobj (l : list (string * string)) : string := "{" +++ jfields l +++ "}".

Fixpoint jlist_aux (l : list string) : string :=
  match l with
  | [] => EmptyString
  | [x] => x
  | x :: xs => x +++ "," +++ jlist_aux xs
  end.
Definition jlist (l : list string) : string := "[" +++ jlist_aux l +++ "]".

Fixpoint nat_str_aux (fuel n : nat) (acc : string) : string :=
  match fuel with
  | O => acc
  | S k =>
      let d := String (ascii_of_nat (48 + n mod 10)) acc in
      match n / 10 with
      | O => d
      | q => nat_str_aux k q d
      end
  end.
Definition nat_str (n : nat) : string := nat_str_aux (S n) n EmptyString.
