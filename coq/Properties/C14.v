(** * C14 — no [dyn] / [Box] in what the macro adds unless dynamic dispatch was requested *)
From Coq Require Import List String Ascii Bool.
From Entrait Require Import Tok Syn Decode Opts Split FnParams Convert Codegen Expand Proj Proj2 Proj3 ProjSide Examples.
From Entrait.Proofs Require Import Base Shapes NonVac PC05 PC14.
Import ListNotations.
Local Open Scope string_scope.
Local Open Scope list_scope.

(** the macro's own tokens ([cl ts]: [ts] mentions neither [dyn] nor [Box], at any nesting depth) *)
Theorem c14_own :
  (forall bv, cl (print_gparam (impl_t_param bv))) /\ cl impl_path_toks /\ cl entrait_for_trait_attr /\
  cl mockall_params /\ cl future_head /\ (forall o, cl (self_ty MGeneric INone o)).
Proof. exact c14_own_tokens. Qed.
Print Assumptions c14_own.

(** a delegating body mentions them only through the function's / the emitted parameters' names ... *)
Theorem c14_body : forall sc ws s aw,
  name_ok (s_name s) = true -> Forall (fun n => name_ok n = true) (typed_names s) -> cl (expected_body sc ws s aw).
Proof. exact expected_body_cl. Qed.
Print Assumptions c14_body.

(** ... and the renaming never invents such a name *)
Theorem c14_renaming : forall fn_name l l',
  fix_fn_param_idents fn_name l = Ok l' ->
  Forall (fun n => name_ok n = true) (desired_names l) -> Forall (fun n => name_ok n = true) (plain_names l').
Proof. exact fix_names_ok. Qed.
Print Assumptions c14_renaming.

(** trait mode: the [EntraitT: ...] predicate is free of [dyn] exactly when delegation is not by reference *)
Theorem c14_trait_bound : forall a ca name tg,
  not_by_ref a -> name_ok name = true -> Forall (fun n => name_ok n = true) (map gp_name (tg_params tg)) ->
  (match ta_delegate a with Some (ByTrait d) => name_ok d | _ => true end) = true ->
  cl (impl_t_bounds a ca name tg).
Proof. exact impl_t_bounds_cl. Qed.
Print Assumptions c14_trait_bound.

Theorem c14_trait_bound_dyn : forall a ca name tg r,
  ta_delegate a = Some (ByRef r) -> mentions NB (impl_t_bounds a ca name tg) = true.
Proof. exact impl_t_bounds_dyn. Qed.
Print Assumptions c14_trait_bound_dyn.

(** the predicate the checker evaluates holds of every model expansion whose user-supplied identifiers and
    tokens that end up in the scanned regions ([c14_side]: function, parameter, trait, [mock_api] names; the
    user's own automock / mock attributes; with a concrete dependency its type and the first lifted
    parameter) do not themselves mention [dyn] / [Box] *)
Theorem c14_view_conditional : forall v attr i items,
  expand_items v attr i = Ok items -> c14_side (mkCtx v attr i) = true -> good (view_C14 (mkCtx v attr i) items).
Proof. exact c14_view_partial. Qed.
Print Assumptions c14_view_conditional.

(** the guarded predicate the checker runs ([view_C14g c items := if c14_side c then view_C14 c items else na])
    holds of every model expansion, for all inputs *)
Theorem c14_view_sound : forall v attr i items,
  expand_items v attr i = Ok items -> good (view_C14g (mkCtx v attr i) items).
Proof. exact c14_view. Qed.
Print Assumptions c14_view_sound.

(** the unguarded predicate is refuted: [#[entrait(Foo)] fn foo(deps: &Box<App>) {}] ... *)
Theorem c14_view_unrestricted_refuted :
  exists v attr i items, expand_items v attr i = Ok items /\ ~ good (view_C14 (mkCtx v attr i) items).
Proof. exact c14_view_refuted. Qed.
Print Assumptions c14_view_unrestricted_refuted.

(** ... and [#[entrait(Foo)] fn Box(deps: &impl Bar) {}] *)
Theorem c14_view_unrestricted_refuted2 :
  exists items, expand_items VEntrait [TId "Foo"] c14_cex_input2 = Ok items /\
                ~ good (view_C14 (mkCtx VEntrait [TId "Foo"] c14_cex_input2) items).
Proof. exact c14_view_refuted2. Qed.
Print Assumptions c14_view_unrestricted_refuted2.

Example c14_nonvacuous :
  forallb (nonvacuous view_C14g)
    [ex_fn; ex_fn_conc; ex_fn_nodeps; ex_fn_export; ex_mod; ex_trait_self; ex_trait_deleg; ex_impl] = true.
Proof. vm_compute. reflexivity. Qed.
Print Assumptions c14_nonvacuous.

(** the side condition holds of the recorded invocations *)
Example c14_side_nonvacuous :
  forallb (fun c => match c with
                    | Some c => c14_side (mkCtx (case_variant c) (c_attr c) (c_input c))
                    | None => false
                    end)
    [ex_fn; ex_fn_conc; ex_fn_nodeps; ex_fn_export; ex_mod; ex_trait; ex_trait_self; ex_trait_deleg; ex_trait_dyn;
     ex_impl; ex_impl_dyn] = true.
Proof. vm_compute. reflexivity. Qed.
Print Assumptions c14_side_nonvacuous.
