(** * C10 — mock derivations are attached only when enabled, and are test-gated unless exporting *)
From Coq Require Import List String Ascii Bool.
From Entrait Require Import Tok Syn Opts Split Convert Codegen Expand Proj Examples.
From Entrait.Proofs Require Import Base Shapes NonVac PC10 Cfg.
Import ListNotations.
Local Open Scope list_scope.

(** ** the switches: an explicit value always wins over the macro variant's default *)
Theorem c10_unimock_explicit : forall v o b, o_unimock o = Some b -> o_unimock (apply_variant v o) = Some b.
Proof. exact apply_variant_unimock_explicit. Qed.
Print Assumptions c10_unimock_explicit.

Theorem c10_export_explicit : forall v o b, o_export o = Some b -> o_export (apply_variant v o) = Some b.
Proof. exact apply_variant_export_explicit. Qed.
Print Assumptions c10_export_explicit.

(** unimock is on iff written [unimock (= true)], or not written and the macro is the [unimock]-feature
    variant; exporting likewise with [export] / [entrait_export]; mockall only when written *)
Theorem c10_unimock_value : forall v o,
  unimock_value (apply_variant v o) = match o_unimock o with Some b => b | None => variant_unimock v end.
Proof. exact unimock_value_variant. Qed.
Print Assumptions c10_unimock_value.

Theorem c10_export_value : forall v o,
  export_value (apply_variant v o) = match o_export o with Some b => b | None => variant_export v end.
Proof. exact export_value_variant. Qed.
Print Assumptions c10_export_value.

Theorem c10_mockall_value : forall v o,
  mockall_value (apply_variant v o) = match o_mockall o with Some b => b | None => false end.
Proof. exact mockall_value_variant. Qed.
Print Assumptions c10_mockall_value.

(** ** the attributes on the trait.
    [mock_spec o needs_api added]: among [added] there is a unimock attribute iff unimock is on (and, when
    [needs_api], a [mock_api] is given), a mockall attribute iff mockall is on, at most one of each, and
    every mock attribute is [cfg_attr(test, ..)]-wrapped iff the invocation is not exporting. *)
Theorem c10_mock_spec_unfold : forall o needs_api added,
  mock_spec o needs_api added <->
  (existsb is_unimock_attr added = unimock_value o && (negb needs_api || is_some (o_mock_api o)) /\
   existsb is_mockall_attr added = mockall_value o /\
   List.length (filter is_unimock_attr added) <= 1 /\
   List.length (filter is_mockall_attr added) <= 1 /\
   (forall a, In a added -> is_mock_attr a = true -> fst (ungate a) = negb (export_value o))).
Proof. exact mock_spec_unfold. Qed.
Print Assumptions c10_mock_spec_unfold.

(** fn: the generated trait carries the macro's attributes followed by the user's re-applied
    sub-attributes ([async_trait] / [automock] paths); a [mock_api] is needed for unimock *)
Theorem c10_fn : forall v attr h s body items,
  expand_items v attr (InFn h s body) = Ok items ->
  exists a f tr im added,
    parse_fn_attr attr = Ok a /\ items = [f; ITrait tr; IImpl im] /\
    t_attrs tr = added ++ filter is_trait_sub (h_attrs h) /\
    mock_spec (apply_variant v (fa_opts a)) true added.
Proof. exact c10_fn_attrs. Qed.
Print Assumptions c10_fn.

Theorem c10_mod : forall v attr h name body sigs sf items,
  expand_items v attr (InMod h name body sigs sf) = Ok items ->
  exists a user tr im added,
    parse_fn_attr attr = Ok a /\
    items = [IMod (h_attrs h) (h_vis h) name (user ++ [ITrait tr; IImpl im]);
             IUse [] (fa_vis a) ([TId name] ++ path_sep ++ [TId (fa_trait a)])] /\
    t_attrs tr = added ++ filter is_trait_sub (h_attrs h) /\
    mock_spec (apply_variant v (fa_opts a)) true added.
Proof. exact c10_mod_attrs. Qed.
Print Assumptions c10_mod.

(** trait: the macro's attributes go in front of the trait's own, no [mock_api] needed for unimock; the
    delegation-target traits get no mock attribute at all *)
Theorem c10_trait : forall v attr h t items,
  expand_items v attr (InTrait h t) = Ok items ->
  exists a tr ds im added,
    parse_trait_attr attr = Ok a /\
    items = [ITrait tr] ++ map ITrait ds ++ [IImpl im] /\
    parts (InTrait h t) items = Some (GTrait tr ds im) /\
    t_attrs tr = added ++ h_attrs h /\
    mock_spec (apply_variant v (ta_opts a)) false added /\
    (forall d, In d ds -> t_attrs d = filter is_async_trait (h_attrs h) \/ t_attrs d = []).
Proof. exact c10_trait_attrs. Qed.
Print Assumptions c10_trait.

(** ** what that means in a build.  [in_effect test a]: the attribute in effect in a build with / without
    [cfg(test)] ([cfg_attr(test, X)] is [X] in a test build and nothing otherwise).  Among the attributes the macro
    added, a unimock / mockall derivation is in effect exactly when it is enabled for the invocation AND (the
    invocation is exporting OR this is a test build): non-test builds contain no mock implementation unless the
    invocation exports, exporting invocations contain it unconditionally — for both kinds of build, every option
    record, with and without the [mock_api] requirement. Composes with [c10_fn] / [c10_mod] / [c10_trait]. *)
Theorem c10_in_build : forall test o needs_api added,
  mock_spec o needs_api added ->
  existsb unimock_derivation (flat_map (in_effect test) added)
    = (unimock_value o && (negb needs_api || is_some (o_mock_api o))) && (export_value o || test) /\
  existsb mockall_derivation (flat_map (in_effect test) added)
    = mockall_value o && (export_value o || test).
Proof. exact mock_spec_in_build. Qed.
Print Assumptions c10_in_build.

Corollary c10_nontest_build_has_no_mock : forall o needs_api added,
  mock_spec o needs_api added -> export_value o = false ->
  existsb unimock_derivation (flat_map (in_effect false) added) = false /\
  existsb mockall_derivation (flat_map (in_effect false) added) = false.
Proof.
  intros o n added H E. destruct (mock_spec_in_build false o n added H) as [-> ->]. rewrite E.
  split; [apply andb_false_r | apply andb_false_r].
Qed.
Print Assumptions c10_nontest_build_has_no_mock.

(** ** the predicate the checker evaluates on the implementation's output holds of every model expansion.
    The view takes (attributes of the trait) minus (the user's attributes that the macro re-applies to the
    trait: all of them for an entraited trait, the [async_trait] / [automock] sub-attributes for fn / mod),
    one occurrence each; on the model's output that difference has exactly the generated attributes. *)
Theorem c10_view_sound : forall v attr i items,
  expand_items v attr i = Ok items -> good (view_C10 (mkCtx v attr i) items).
Proof. exact c10_view. Qed.
Print Assumptions c10_view_sound.

(** non-vacuity *)
Example c10_nonvacuous :
  forallb (nonvacuous view_C10)
          [ex_fn; ex_fn_conc; ex_fn_nodeps; ex_fn_export; ex_mod; ex_trait; ex_trait_self; ex_trait_deleg; ex_trait_dyn] = true.
Proof. vm_compute. reflexivity. Qed.
Print Assumptions c10_nonvacuous.
