(** * C13 — generated traits have exactly the requested visibility *)
From Coq Require Import List String Ascii Bool.
From Entrait Require Import Tok Syn Opts Split Convert Codegen Expand Proj Examples.
From Entrait.Proofs Require Import Base Shapes NonVac PC13 Vis.
Import ListNotations.
Local Open Scope list_scope.

(** fn: the trait carries exactly the visibility tokens written before its name in the attribute
    (none => none), whatever the function's own visibility is; its name is the requested one. *)
Theorem c13_fn : forall v attr h s body items,
  expand_items v attr (InFn h s body) = Ok items ->
  exists a f tr im, parse_fn_attr attr = Ok a /\ items = [f; ITrait tr; IImpl im] /\
                    t_vis tr = fa_vis a /\ t_name tr = fa_trait a.
Proof. exact c13_fn_vis. Qed.
Print Assumptions c13_fn.

(** mod: the trait sits inside the module with the requested visibility ([pub(super)] when none was
    requested) and is re-exported next to the module by [vis use module::Trait;] with the requested tokens. *)
Theorem c13_mod : forall v attr h name body sigs sf items,
  expand_items v attr (InMod h name body sigs sf) = Ok items ->
  exists a user tr im,
    parse_fn_attr attr = Ok a /\
    items = [IMod (h_attrs h) (h_vis h) name (user ++ [ITrait tr; IImpl im]);
             IUse [] (fa_vis a) ([TId name] ++ path_sep ++ [TId (fa_trait a)])] /\
    t_name tr = fa_trait a /\
    t_vis tr = module_vis (fa_vis a).
Proof. exact c13_mod_vis. Qed.
Print Assumptions c13_mod.

(** what that means: the trait of an entraited module is defined one module level below the invocation site, so
    the requested tokens are not emitted as they are but as [module_vis] of them — and [module_vis v], read inside
    the module [m], denotes exactly the scope that [v] denotes at the invocation site ([Vis.vis_scope]: the module
    within which the item is visible; relative visibilities [pub(self)], [pub(super)], [pub(in self::..)],
    [pub(in super::..)] and none are resolved against the module they are written in), for every site, every
    module name and every visibility rustc accepts at the site. *)
Theorem c13_mod_scope : forall site m v s,
  vis_scope site v = Some s -> vis_scope (m :: site) (module_vis v) = Some s.
Proof. exact module_vis_scope. Qed.
Print Assumptions c13_mod_scope.

(** ... whereas the requested tokens themselves, emitted inside the module (the macro before the repair of F17),
    denote a narrower scope; the re-export beside the module is then rejected by rustc (E0365 / E0603). *)
Theorem c13_mod_same_tokens_refuted :
  exists site m v s, vis_scope site v = Some s /\ vis_scope (m :: site) v <> Some s.
Proof.
  exists ["b"; "a"]%string, "m"%string, [TId "pub"; TG Paren [TId "super"]], (Within ["a"]%string).
  split; [vm_compute; reflexivity | vm_compute; discriminate].
Qed.
Print Assumptions c13_mod_same_tokens_refuted.

(** trait: the re-emitted trait and the delegation-target trait take the source trait's visibility *)
Theorem c13_trait : forall v attr h t items,
  expand_items v attr (InTrait h t) = Ok items ->
  exists tr ds im, items = [ITrait tr] ++ map ITrait ds ++ [IImpl im] /\
                   parts (InTrait h t) items = Some (GTrait tr ds im) /\
                   t_vis tr = h_vis h /\ (forall d, hd_error ds = Some d -> t_vis d = h_vis h).
Proof. exact c13_trait_vis. Qed.
Print Assumptions c13_trait.

(** the predicate the checker evaluates on the implementation's output holds of every model expansion *)
Theorem c13_view_sound : forall v attr i items,
  expand_items v attr i = Ok items -> good (view_C13 (mkCtx v attr i) items).
Proof. exact c13_view. Qed.
Print Assumptions c13_view_sound.

(** non-vacuity: recorded invocations of the real macro meet the hypotheses, and the model's expansion of
    them is token-identical to what the real macro emitted *)
Example c13_nonvacuous :
  forallb (nonvacuous view_C13) [ex_fn; ex_fn_export; ex_mod; ex_trait; ex_trait_deleg] = true.
Proof. vm_compute. reflexivity. Qed.
Print Assumptions c13_nonvacuous.
