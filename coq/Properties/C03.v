(** * C03 — every supported signature expands to code with the same call type (partial: see DESIGN.md)

    Proved: the macro's obligations on the emitted signature. That rustc accepts the expansion (type
    and borrow checking) is rustc's behaviour: sampled by compiling the corpus, not proved. *)
From Coq Require Import List String Ascii Bool.
From Entrait Require Import Tok Syn Tie Opts Split FnParams Convert Codegen Expand Proj Proj2 Proj3 Known Examples.
From Entrait.Proofs Require Import Base PTie Shapes NonVac PC03 PC04 PC03b.
From Entrait Require Import ProjSide.
Import ListNotations.
Local Open Scope list_scope.

(** For every function the macro converts, the emitted method is the source function seen as
    (receiver, arguments...): the typed parameters have the source parameters' types in order, the
    receiver stands for the dependency parameter ([&self] / [&'a self] / [self] by the reference-ness of
    its type, [&self] for no_deps), qualifiers and name are kept, the lifetime parameters stay on the
    method, and no type / const parameter stays on it ([Proj3.c03_one]); and every where predicate of
    the source either bounds the dependency generic (it becomes an impl bound) or is still on the method. *)
Theorem c03_signature : forall k o tg s tf tg' tparams,
  k = RSelfRef ->
  analyze k o tg s = Ok (tf, tg') ->
  c03_one (no_deps_value o) tparams s (tf_sig tf) = true /\
  (forall w, In w (where_items (s_gen s)) ->
     is_deps_pred (no_deps_value o) s w = true \/ In w (where_items (s_gen (tf_sig tf)))).
Proof. exact c03_converted. Qed.
Print Assumptions c03_signature.

(** What a function contributes to the trait's generic parameters: all its type / const parameters
    except the dependency generic, in order, appended to what earlier functions of the module contributed. *)
Theorem c03_trait_params : forall k o sigs tg fns tg',
  analyze_all k o tg sigs = Ok (fns, tg') ->
  tg_params tg' = tg_params tg ++ flat_map (lifted_of (no_deps_value o)) sigs.
Proof. exact analyze_all_params. Qed.
Print Assumptions c03_trait_params.

Theorem c03_all_params_lifted : forall nd s p,
  In p (p_items (g_params (s_gen s))) -> is_life p = false ->
  is_deps_param nd s p = true \/ In (gp_name p) (map gp_name (lifted_of nd s)).
Proof. exact lifted_covers. Qed.
Print Assumptions c03_all_params_lifted.

(** A function that declares each generic name once contributes pairwise distinct trait parameters. *)
Theorem c03_no_duplicate_params : forall nd s, src_generics_nodup s = true -> NoDup (map gp_name (lifted_of nd s)).
Proof. exact lifted_nodup. Qed.
Print Assumptions c03_no_duplicate_params.

(** No where predicate that the analysis of a function lifts to the trait names a lifetime parameter of that
    function (such predicates stay on the method only). *)
Theorem c03_no_method_lifetime_on_trait : forall tg s o d tg',
  analyze_fn_deps tg s o = Ok (d, tg') -> winv_lt (life_names (s_gen s)) tg -> winv_lt (life_names (s_gen s)) tg'.
Proof. exact analyze_fn_deps_ok_lt. Qed.
Print Assumptions c03_no_method_lifetime_on_trait.

(** The predicate the checker evaluates on the implementation's output holds of every model expansion
    outside the known class F3 (two functions of one module lifting a generic of the same name). *)
Theorem c03_view_sound : forall v attr i items,
  expand_items v attr i = Ok items -> known_C03 (mkCtx v attr i) = false -> good (view_C03 (mkCtx v attr i) items).
Proof. exact c03_view. Qed.
Print Assumptions c03_view_sound.

(** ... and inside that class the property fails for the model too (the finding F3): *)
Definition f3_sig (name : string) : sig :=
  mkSig false false false None name
        (mkGen true (p_of_list [mkGP GType [] "D" [] []; mkGP GType [] "T" [] []]) None)
        (p_of_list [ArgTyped [] (PIdent false false "d" []) (TyRef None false (TyPath false false 1 "D" [TId "D"]));
                    ArgTyped [] (PIdent false false "t" []) (TyPath false false 1 "T" [TId "T"])])
        None None.

Definition f3_body : toks :=
  [TId "pub"] ++ print_sig (f3_sig "a") ++ [TG Brace []] ++ [TId "pub"] ++ print_sig (f3_sig "b") ++ [TG Brace []].

Definition f3_input : input :=
  InMod (mkHead [] [] false false) "m" f3_body
        [mkSigAt 1 (List.length (print_sig (f3_sig "a"))) (f3_sig "a");
         mkSigAt (3 + List.length (print_sig (f3_sig "a"))) (List.length (print_sig (f3_sig "b"))) (f3_sig "b")]
        (Some ["a"; "b"]%string).

Example c03_refuted_in_known_class :
  exists items, expand_items VEntrait [TId "Foo"] f3_input = Ok items /\
                known_C03 (mkCtx VEntrait [TId "Foo"] f3_input) = true /\
                v_app (view_C03 (mkCtx VEntrait [TId "Foo"] f3_input) items) = true /\
                v_holds (view_C03 (mkCtx VEntrait [TId "Foo"] f3_input) items) = false.
Proof. eexists. vm_compute. repeat split; reflexivity. Qed.
Print Assumptions c03_refuted_in_known_class.

(** Higher-ranked where predicates on the dependency (F23): every trait bound of [for<'x> D: Bound<'x>] reaches the
    bounds the impl states on [Self] with the predicate's binder in front ([Self: for<'x> Bound<'x>]) — for every
    generics list, any number of predicates and bounds. *)
Theorem c03_hrtb_binder_kept : forall tg g name d tg' w b,
  find_deps_generic_bounds tg g name = Some (d, tg') -> nodup_str (tparam_names g) = true ->
  In w (where_items g) -> wp_is_type w = true -> wp_bounded w = BPath false false 1 name ->
  In b (trait_bounds (life_names g) (wp_bounds w)) -> takes_binder b = true ->
  In (wp_binder w ++ b) (deps_bounds_of d).
Proof. exact hrtb_binder_kept. Qed.
Print Assumptions c03_hrtb_binder_kept.

(** ... a parenthesised bound carries it inside its parentheses; lifetime bounds, bounds with a binder of their own and
    [use<..>] captures are copied unchanged; without a binder nothing changes. *)
Theorem c03_binder_shapes :
  (forall binder inner, takes_binder inner = true -> with_binder binder [TG Paren inner] = [TG Paren (binder ++ inner)]) /\
  (forall binder b, takes_binder b = false -> (forall inner, b <> [TG Paren inner]) -> with_binder binder b = b) /\
  (forall lts w, wp_binder w = [] -> pred_bounds lts w = trait_bounds lts (wp_bounds w)).
Proof. exact (conj with_binder_paren (conj with_binder_other pred_bounds_no_binder)). Qed.
Print Assumptions c03_binder_shapes.

(** ... and the dependency's bounds are exactly its inline bounds followed, predicate by predicate, by these. *)
Theorem c03_deps_bounds_exact : forall tg g name d tg',
  find_deps_generic_bounds tg g name = Some (d, tg') -> nodup_str (tparam_names g) = true ->
  deps_bounds_of d = flat_map (pcontrib (life_names g) name) (p_items (g_params g)) ++ flat_map (contrib (life_names g) name) (where_items g).
Proof. exact deps_bounds_exact. Qed.
Print Assumptions c03_deps_bounds_exact.

(** Which of the dependency's declared bounds are stated on [Self] (inline, [impl A + B], or in a where predicate): all of them, in
    source order, except relaxed bounds ([?Sized], F16) and lifetime parameters of the function itself ([D: 'a], F25: declared on
    the method, not on the impl) — nothing else is dropped, nothing is added. *)
Theorem c03_bounds_carried : forall lts l b,
  In b (trait_bounds lts l) <-> In b l /\ is_relaxed b = false /\ is_fn_lifetime lts b = false.
Proof. exact trait_bounds_spec. Qed.
Print Assumptions c03_bounds_carried.

Theorem c03_fn_lifetime_bound : forall lts b,
  is_fn_lifetime lts b = true <-> exists n, b = [pc "'"; TId n] /\ In n lts.
Proof. exact is_fn_lifetime_spec. Qed.
Print Assumptions c03_fn_lifetime_bound.

(** [fn l<'x, D: A + 'x + 'static + ?Sized>]: [A] and ['static] are carried *)
Example c03_bounds_example :
  trait_bounds ["x"]%string [[TId "A"]; [pc "'"; TId "x"]; [pc "'"; TId "static"]; [pc "?"; TId "Sized"]]%string
  = [[TId "A"]; [pc "'"; TId "static"]]%string.
Proof. vm_compute. reflexivity. Qed.
Print Assumptions c03_bounds_example.

(** [where for<'x> D: R<'x> + 'static + (P<'x>)] on the dependency [D] *)
Example c03_hrtb_example :
  pred_bounds [] (mkWP true (BPath false false 1 "D")
                 [[TId "R"; pc "<"; pc "'"; TId "x"; pc ">"]; [pc "'"; TId "static"]; [TG Paren [TId "P"; pc "<"; pc "'"; TId "x"; pc ">"]]]
                 [] [TId "for"; pc "<"; pc "'"; TId "x"; pc ">"])
  = [[TId "for"; pc "<"; pc "'"; TId "x"; pc ">"; TId "R"; pc "<"; pc "'"; TId "x"; pc ">"];
     [pc "'"; TId "static"];
     [TG Paren [TId "for"; pc "<"; pc "'"; TId "x"; pc ">"; TId "P"; pc "<"; pc "'"; TId "x"; pc ">"]]]%string.
Proof. vm_compute. reflexivity. Qed.
Print Assumptions c03_hrtb_example.

(** The tie for the fields the print round trip does not cover (coq/Tie.v, evaluated on every record of every run): a where
    predicate that passes the check is, token for token, binder ++ bounded type ++ ":" ++ its bounds joined by "+", so the
    per-bound lists and the binder that [c03_deps_bounds_exact] speaks about are the parts of the predicate the user wrote. *)
Theorem c03_bounds_are_the_predicates_own_tokens : forall w,
  wp_is_type w = true -> wpred_ok w = true ->
  exists ty, bounded_ok (wp_bounded w) ty = true /\
    (wp_toks w = wp_binder w ++ ty ++ [pc ":"] ++ join [plus] (wp_bounds w) \/
     wp_toks w = wp_binder w ++ ty ++ [pc ":"] ++ join [plus] (wp_bounds w) ++ [plus]).
Proof. exact wpred_ok_decomposes. Qed.
Print Assumptions c03_bounds_are_the_predicates_own_tokens.

Theorem c03_bounded_ident_classification : forall q l n first s,
  path_class_ok q l n first [TId s] = true -> q = false /\ l = false /\ n = 1 /\ first = s.
Proof. exact path_class_single. Qed.
Print Assumptions c03_bounded_ident_classification.

(** [where for<'x> D: R<'x> + Send] as synx hands it over *)
Example c03_fields_example :
  wpred_ok (mkWP true (BPath false false 1 "D") [[TId "R"; pc "<"; pc "'"; TId "x"; pc ">"]; [TId "Send"]]
              [TId "for"; pc "<"; pc "'"; TId "x"; pc ">"; TId "D"; pc ":"; TId "R"; pc "<"; pc "'"; TId "x"; pc ">"; pc "+"; TId "Send"]
              [TId "for"; pc "<"; pc "'"; TId "x"; pc ">"]) = true /\
  wpred_ok (mkWP true (BPath false false 1 "E") [[TId "R"; pc "<"; pc "'"; TId "x"; pc ">"]; [TId "Send"]]
              [TId "for"; pc "<"; pc "'"; TId "x"; pc ">"; TId "D"; pc ":"; TId "R"; pc "<"; pc "'"; TId "x"; pc ">"; pc "+"; TId "Send"]
              [TId "for"; pc "<"; pc "'"; TId "x"; pc ">"]) = false.
Proof. vm_compute. split; reflexivity. Qed.
Print Assumptions c03_fields_example.

Example c03_nonvacuous :
  forallb (nonvacuous view_C03) [ex_fn; ex_fn_conc; ex_fn_nodeps; ex_fn_export; ex_mod] = true.
Proof. vm_compute. reflexivity. Qed.
Print Assumptions c03_nonvacuous.
