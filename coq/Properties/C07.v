(** * C07 — delegation to a separately implemented trait: [#[entrait(TraitImpl, delegate_by = ..)] trait] and [#[entrait] impl] *)
From Coq Require Import List String Ascii Bool.
From Entrait Require Import Tok Syn Opts Split FnParams Convert Codegen Expand Proj Proj2 Proj3 Examples.
From Entrait.Proofs Require Import Base Shapes NonVac PFnParams PC16 PC01 PC06 PC07 Sem Sem2.
Import ListNotations.
Local Open Scope list_scope.

(** Trait side. With a delegation target [it] the macro emits, after the entraited trait,
    [trait it<EntraitT, P..>: 'static { methods }] with the requested visibility, whose methods are the
    entraited trait's methods in order, the receiver replaced by ([delegate_by = Trait]) or followed by
    ([delegate_by = ref]) the parameter [__impl]; for [delegate_by = Trait] the selector
    [pub trait Trait<T> { type Target: it<T>; }] follows, for [delegate_by = ref] nothing does. *)
Theorem c07_target_traits : forall a v tg src subs ds it,
  ta_impl_trait a = Some it ->
  delegation_trait_defs a v tg (map tf_of_method src) subs = Ok (map ITrait ds) ->
  exists d rest recv,
    ds = d :: rest /\
    t_name d = it /\ t_vis d = v /\
    p_items (g_params (t_gen d)) = entrait_t_param :: tg_params tg /\
    t_colon d = true /\ t_supers d = static_supers /\
    trait_sigs d = map (fun x => (fst x, make_trait_fn_sig (recv (snd x)) subs (no_mock_opts (ta_opts a)))) src /\
    ((exists del, ta_delegate a = Some (ByTrait del) /\ recv = static_impl_receiver /\ rest = [selector_trait it del]) \/
     (exists r, ta_delegate a = Some (ByRef r) /\ recv = dynamic_impl_receiver /\ rest = [])).
Proof. exact delegation_defs_target. Qed.
Print Assumptions c07_target_traits.

(** the target trait's method signatures are the ones the property describes ([Proj3.c07_target_sig]) *)
Theorem c07_target_sig_static : forall s, print_sig (static_impl_receiver s) = c07_target_sig false s.
Proof. exact static_receiver_sig. Qed.
Print Assumptions c07_target_sig_static.

Theorem c07_target_sig_dynamic : forall s, print_sig (dynamic_impl_receiver s) = c07_target_sig true s.
Proof. exact dynamic_receiver_sig. Qed.
Print Assumptions c07_target_sig_dynamic.

(** ... and with the async rewrite of generated traits on top ([Proj3.c07_target_sig_full]): exactly what the
    target trait's methods print as ([make_trait_fn_sig] of the receiver-rewritten signature) *)
Theorem c07_target_sig_full_static : forall subs o s,
  print_sig (make_trait_fn_sig (static_impl_receiver s) subs o)
  = c07_target_sig_full false (contains_async_trait subs) (future_send o) s.
Proof. exact static_target_sig_full. Qed.
Print Assumptions c07_target_sig_full_static.

Theorem c07_target_sig_full_dynamic : forall subs o s,
  print_sig (make_trait_fn_sig (dynamic_impl_receiver s) subs o)
  = c07_target_sig_full true (contains_async_trait subs) (future_send o) s.
Proof. exact dynamic_target_sig_full. Qed.
Print Assumptions c07_target_sig_full_dynamic.

(** all methods of the target trait, any number: generated with the [async_trait] attributes of the
    entraited trait and its options minus mocking, they print as the property says *)
Theorem c07_target_sigs : forall (recv : sig -> sig) dyn attrs o src,
  (forall subs o s, print_sig (make_trait_fn_sig (recv s) subs o) = c07_target_sig_full dyn (contains_async_trait subs) (future_send o) s) ->
  map (fun '(_, s) => print_sig s)
      (map (fun x : list attr * sig => (fst x, make_trait_fn_sig (recv (snd x)) (filter is_async_trait attrs) (no_mock_opts o))) src)
  = map (fun '(_, s) => c07_target_sig_full dyn (contains_async_trait attrs) (future_send o) s) src.
Proof. exact target_sigs_full. Qed.
Print Assumptions c07_target_sigs.

(** the forwarding call is [<EntraitT::Target as it<EntraitT>>::m(self, args)] under the bound
    [EntraitT: Trait<EntraitT> + ::core::marker::Sync + 'static] *)
Theorem c07_call_static : forall a ca s it del,
  ta_impl_trait a = Some it -> ta_delegate a = Some (ByTrait del) ->
  c06_call a ca s =
  [pc "<"; TId "EntraitT"; pc ":"; pc ":"; TId "Target"; TId "as"; TId it; pc "<"; TId "EntraitT"; pc ">"; pc ">"; pc ":"; pc ":";
   TId (s_name s); TG Paren ([TId "self"; comma] ++ join [comma] (map (fun n => [TId n]) (typed_names s)))]%string.
Proof. exact c07_call_by_trait. Qed.
Print Assumptions c07_call_static.

Theorem c07_bound_static : forall a ca name g it del,
  ta_impl_trait a = Some it -> ta_delegate a = Some (ByTrait del) ->
  c06_bound a ca name g =
  [TId "EntraitT"; pc ":"; TId del; pc "<"; TId "EntraitT"; pc ">"; pc "+"; pc ":"; pc ":"; TId "core"; pc ":"; pc ":"; TId "marker";
   pc ":"; pc ":"; TId "Sync"; pc "+"; pc "'"; TId "static"]%string.
Proof. exact c07_bound_by_trait. Qed.
Print Assumptions c07_bound_static.

(** Impl side. [#[entrait] impl Trait for Type { .. }] expands to the inherent [impl Type { the user's items }]
    and [impl<EntraitT..> Trait<EntraitT, ..> for Type] whose methods — one per function of the block, in
    order, any number — have the body [{ Self::f(__impl, a_1, .., a_n)[.await] }] (the identifiers of
    the emitted signature, in order; [.await] iff the source function is async). *)
Theorem c07_impl_block : forall v attr h tp st body sigs sf items,
  expand_items v attr (InImpl h tp st body sigs sf) = Ok items ->
  exists bitems fl inh im r,
    split_body false sigs body = Ok (bitems, fl) /\
    items = [IImpl inh; IImpl im] /\
    i_self inh = st /\ i_trait inh = None /\ i_items inh = map iitem_of_body_item bitems /\
    i_self im = st /\ i_trait im = Some ((tp ++ [pc "<"; TId "EntraitT"]) ++ r) /\
    only_impl_fns im = true /\
    bodies_ok true false (src_names_async (body_fns bitems)) (impl_fns im) = true.
Proof. exact c07_impl_expansion. Qed.
Print Assumptions c07_impl_block.

(** What the method of [Impl<T>] does under dependency inversion (mini-semantics, Proofs/Sem2.v): evaluating its body
    with the method's parameters bound positionally performs exactly one call — of [<T::Target as It<T>>::m] (static
    selection) or of method [m] of the [dyn It<T>] object obtained from [T] through [AsRef] / [Borrow] (dynamic) —
    with the caller's [&Impl<T>] as first argument, then the caller's arguments 0..n-1 in declared order, awaited iff
    async; for every signature and both kinds of selection. *)
Theorem c07_call_semantics : forall a ca s it,
  ta_impl_trait a = Some it ->
  (exists d, ta_delegate a = Some (ByTrait d)) \/ (exists r, ta_delegate a = Some (ByRef r)) ->
  NoDup (typed_names s) -> ~ In "self"%string (typed_names s) ->
  eval_provider_call (typed_names s)
    [TG Brace (c06_call a ca s ++ (if s_async s then [pc "."; TId "await"] else []))]
  = Some (mkEvent (c07_callee a it (s_name s)) (VSelf :: map VArg (seq 0 (List.length (typed_names s)))) (s_async s)).
Proof. exact c07_call_event. Qed.
Print Assumptions c07_call_semantics.

(** The predicate the checker evaluates on the implementation's output holds of every model expansion. *)
Theorem c07_view_sound : forall v attr i items,
  expand_items v attr i = Ok items -> good (view_C07 (mkCtx v attr i) items).
Proof. exact c07_view. Qed.
Print Assumptions c07_view_sound.

Example c07_nonvacuous : forallb (nonvacuous view_C07) [ex_trait_deleg; ex_trait_dyn; ex_impl; ex_impl_dyn] = true.
Proof. vm_compute. reflexivity. Qed.
Print Assumptions c07_nonvacuous.
