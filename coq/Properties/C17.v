(** * C17 — options mean what the table says; macro variants are option shorthands *)
From Coq Require Import List String Ascii Bool Permutation.
From Entrait Require Import Tok Syn Opts Split FnParams Convert Codegen Expand.
From Entrait.Proofs Require Import Base PC17 PC17b.
Import ListNotations.
Local Open Scope list_scope.

(** Every documented way of writing an option ([PC17.spells]: bare, [= true], [= false], [?Send],
    [mock_api = Name], [delegate_by [= ref | Borrow | Trait]]) parses to that option, whatever follows
    it (the end of the list or a comma). *)
Theorem c17_spelling : forall e ts rest, spells e ts -> sep_ok rest -> parse_opt (ts ++ rest) = Ok (e, rest).
Proof. exact parse_opt_spells. Qed.
Print Assumptions c17_spelling.

(** An fn/mod attribute [vis Name, opt, opt, ...] with any number of options in any documented
    spelling parses to the left-to-right accumulation of those options. *)
Theorem c17_fn_attr : forall v name es tss,
  vis_toks_ok v -> accept_as_ident name = true -> Forall2 spells es tss ->
  parse_fn_attr (v ++ TId name :: flat tss) =
  (let* o := fold_set set_fn_opt es no_opts in Ok (mkFnAttr v name o)).
Proof. exact parse_fn_attr_spelled. Qed.
Print Assumptions c17_fn_attr.

(** Bare = [= true]: two spellings of the same option list parse identically (hence expand identically). *)
Theorem c17_bare_is_true : forall v name es tss tss',
  vis_toks_ok v -> accept_as_ident name = true ->
  Forall2 spells es tss -> Forall2 spells es tss' ->
  parse_fn_attr (v ++ TId name :: flat tss) = parse_fn_attr (v ++ TId name :: flat tss').
Proof. exact spellings_agree. Qed.
Print Assumptions c17_bare_is_true.

(** Order independence: any permutation of an option list with pairwise distinct keys parses identically. *)
Theorem c17_order_independent : forall v name es es' tss tss',
  vis_toks_ok v -> accept_as_ident name = true ->
  Forall2 spells es tss -> Forall2 spells es' tss' ->
  Permutation es es' -> NoDup (map key es) ->
  parse_fn_attr (v ++ TId name :: flat tss) = parse_fn_attr (v ++ TId name :: flat tss').
Proof. exact fn_options_order_independent. Qed.
Print Assumptions c17_order_independent.

(** ... and the same for any accumulator whose setters commute on distinct keys (trait and impl targets). *)
Theorem c17_order_independent_general : forall S (set : S -> eopt -> result S),
  (forall st e1 e2, key e1 <> key e2 ->
     (let* s1 := set st e1 in set s1 e2) = (let* s2 := set st e2 in set s2 e1)) ->
  forall es es', Permutation es es' -> NoDup (map key es) -> forall st, fold_set set es st = fold_set set es' st.
Proof. exact @fold_set_perm. Qed.
Print Assumptions c17_order_independent_general.

(** Trait targets: an attribute consisting of options only ([opt, opt, ...], any documented spelling), and one
    with a delegation-target trait name in front ([vis Name, opt, ...], the name not being an option keyword),
    parse to the left-to-right accumulation of the options; hence any permutation of an option list with
    distinct keys — in particular one that starts with a bare option — parses identically. *)
Theorem c17_trait_attr : forall es tss,
  Forall2 spells es tss -> es <> [] ->
  parse_trait_attr (join [comma] tss) =
  (let* od := fold_set set_trait_opt es (no_opts, None) in Ok (mkTraitAttr None (fst od) (snd od))).
Proof. exact parse_trait_attr_options. Qed.
Print Assumptions c17_trait_attr.

Theorem c17_trait_attr_named : forall v name es tss,
  vis_toks_ok v -> accept_as_ident name = true -> option_keyword name = false ->
  Forall2 spells es tss -> es <> [] ->
  parse_trait_attr (v ++ TId name :: comma :: join [comma] tss) =
  (let* od := fold_set set_trait_opt es (no_opts, None) in Ok (mkTraitAttr (Some name) (fst od) (snd od))).
Proof. exact parse_trait_attr_named. Qed.
Print Assumptions c17_trait_attr_named.

Theorem c17_trait_order_independent : forall es es' tss tss',
  Forall2 spells es tss -> Forall2 spells es' tss' -> es <> [] ->
  Permutation es es' -> NoDup (map key es) ->
  parse_trait_attr (join [comma] tss) = parse_trait_attr (join [comma] tss').
Proof. exact trait_options_order_independent. Qed.
Print Assumptions c17_trait_order_independent.

(** Accepted option sets per target: fn/mod everything but [delegate_by]; trait everything but
    [no_deps] and [export]; impl only [debug]; anything else is "Unsupported option". *)
Theorem c17_fn_target : forall o e, (exists o', set_fn_opt o e = Ok o') <-> key e <> 2.
Proof. exact fn_target_accepts. Qed.
Print Assumptions c17_fn_target.
Theorem c17_trait_target : forall od e, (exists od', set_trait_opt od e = Ok od') <-> (key e <> 0 /\ key e <> 3).
Proof. exact trait_target_accepts. Qed.
Print Assumptions c17_trait_target.
Theorem c17_impl_target : forall o e, (exists o', set_impl_opt o e = Ok o') <-> key e = 1.
Proof. exact impl_target_accepts. Qed.
Print Assumptions c17_impl_target.
Theorem c17_rejected_fn : forall o e, key e = 2 -> set_fn_opt o e = Err unsupported.
Proof. exact rejected_is_unsupported_fn. Qed.
Print Assumptions c17_rejected_fn.
Theorem c17_rejected_trait : forall od e, key e = 0 \/ key e = 3 -> set_trait_opt od e = Err unsupported.
Proof. exact rejected_is_unsupported_trait. Qed.
Print Assumptions c17_rejected_trait.
Theorem c17_rejected_impl : forall o e, key e <> 1 -> set_impl_opt o e = Err unsupported.
Proof. exact rejected_is_unsupported_impl. Qed.
Print Assumptions c17_rejected_impl.

(** [option = false] = omitted, before variant defaults: the fn and mod pipelines see the options only
    through their defaulted values, and writing [no_deps = false] / [export = false] (or any [debug]) does
    not change those. *)
Theorem c17_fn_equiv : forall attr attr' a a' h s body,
  parse_fn_attr attr = Ok a -> parse_fn_attr attr' = Ok a' ->
  fa_vis a = fa_vis a' -> fa_trait a = fa_trait a' -> opts_equiv (fa_opts a) (fa_opts a') ->
  expand_items VEntrait attr (InFn h s body) = expand_items VEntrait attr' (InFn h s body).
Proof. exact fn_expansion_respects_equiv. Qed.
Print Assumptions c17_fn_equiv.
Theorem c17_mod_equiv : forall attr attr' a a' h name body sigs sf,
  parse_fn_attr attr = Ok a -> parse_fn_attr attr' = Ok a' ->
  fa_vis a = fa_vis a' -> fa_trait a = fa_trait a' -> opts_equiv (fa_opts a) (fa_opts a') ->
  expand_items VEntrait attr (InMod h name body sigs sf) = expand_items VEntrait attr' (InMod h name body sigs sf).
Proof. exact mod_expansion_respects_equiv. Qed.
Print Assumptions c17_mod_equiv.
Theorem c17_no_deps_false : forall o, o_no_deps o = None ->
  opts_equiv (mkOpts (Some false) (o_debug o) (o_export o) (o_future_send o) (o_mock_api o) (o_unimock o) (o_mockall o)) o.
Proof. exact no_deps_false_equiv. Qed.
Print Assumptions c17_no_deps_false.
Theorem c17_export_false : forall o, o_export o = None ->
  opts_equiv (mkOpts (o_no_deps o) (o_debug o) (Some false) (o_future_send o) (o_mock_api o) (o_unimock o) (o_mockall o)) o.
Proof. exact export_false_equiv. Qed.
Print Assumptions c17_export_false.

(** Variants: [entrait_export(args)] = [entrait(args, export)] unless [args] sets [export] (then the
    variant changes nothing); with the unimock feature, [entrait(args)] = [entrait(args, unimock)]
    unless [args] sets [unimock]. The expansion depends on the attribute only through the parsed
    (visibility, name, defaulted options). *)
Theorem c17_export_variant : forall v name es tss a,
  vis_toks_ok v -> accept_as_ident name = true -> Forall2 spells es tss ->
  ~ In 3 (map key es) ->
  parse_fn_attr (v ++ TId name :: flat tss) = Ok a ->
  exists a', parse_fn_attr ((v ++ TId name :: flat tss) ++ [comma; TId "export"]) = Ok a' /\
             fa_vis a' = fa_vis a /\ fa_trait a' = fa_trait a /\
             apply_variant VEntrait (fa_opts a') = apply_variant VExport (fa_opts a).
Proof. exact export_variant_is_shorthand. Qed.
Print Assumptions c17_export_variant.
Theorem c17_export_explicit : forall o b, o_export o = Some b -> apply_variant VExport o = o.
Proof. exact export_variant_explicit_wins. Qed.
Print Assumptions c17_export_explicit.
Theorem c17_unimock_feature : forall v name es tss a,
  vis_toks_ok v -> accept_as_ident name = true -> Forall2 spells es tss ->
  ~ In 6 (map key es) ->
  parse_fn_attr (v ++ TId name :: flat tss) = Ok a ->
  exists a', parse_fn_attr ((v ++ TId name :: flat tss) ++ [comma; TId "unimock"]) = Ok a' /\
             fa_vis a' = fa_vis a /\ fa_trait a' = fa_trait a /\
             apply_variant VEntrait (fa_opts a') = apply_variant VUnimock (fa_opts a).
Proof. exact unimock_feature_is_shorthand. Qed.
Print Assumptions c17_unimock_feature.
Theorem c17_unimock_explicit : forall o b, o_unimock o = Some b -> apply_variant VUnimock o = o.
Proof. exact unimock_feature_explicit_wins. Qed.
Print Assumptions c17_unimock_explicit.
Theorem c17_expansion_of_parsed_attr : forall v v' attr attr' a a' h s body,
  parse_fn_attr attr = Ok a -> parse_fn_attr attr' = Ok a' ->
  fa_vis a = fa_vis a' -> fa_trait a = fa_trait a' ->
  apply_variant v (fa_opts a) = apply_variant v' (fa_opts a') ->
  expand_items v attr (InFn h s body) = expand_items v' attr' (InFn h s body).
Proof. exact expansion_depends_on_parsed_attr. Qed.
Print Assumptions c17_expansion_of_parsed_attr.
Theorem c17_expansion_of_parsed_attr_mod : forall v v' attr attr' a a' h name body sigs sf,
  parse_fn_attr attr = Ok a -> parse_fn_attr attr' = Ok a' ->
  fa_vis a = fa_vis a' -> fa_trait a = fa_trait a' ->
  apply_variant v (fa_opts a) = apply_variant v' (fa_opts a') ->
  expand_items v attr (InMod h name body sigs sf) = expand_items v' attr' (InMod h name body sigs sf).
Proof. exact expansion_depends_on_parsed_attr_mod. Qed.
Print Assumptions c17_expansion_of_parsed_attr_mod.

(** non-vacuity: [pub(crate) Foo, unimock = true, no_deps, ?Send, mock_api = M] and a permutation in other spellings *)
Example c17_example :
  let v := [TId "pub"; TG Paren [TId "crate"]] in
  parse_fn_attr (v ++ TId "Foo" :: flat [[TId "unimock"; pc "="; TId "true"]; [TId "no_deps"]; [pc "?"; TId "Send"];
                                         [TId "mock_api"; pc "="; TId "M"]])
  = parse_fn_attr (v ++ TId "Foo" :: flat [[TId "mock_api"; pc "="; TId "M"]; [pc "?"; TId "Send"]; [TId "unimock"];
                                           [TId "no_deps"; pc "="; TId "true"]]) /\
  exists a, parse_fn_attr (v ++ TId "Foo" :: flat [[TId "unimock"]; [TId "no_deps"]]) = Ok a.
Proof. vm_compute. split; [reflexivity | eexists; reflexivity]. Qed.
Print Assumptions c17_example.
