(** * C20 — expansion is a pure function of (attribute, item) (partial: see DESIGN.md)

    The model [Expand.expand] is a Gallina function, so it is deterministic by construction; what is
    proved here is what the *implementation's* determinism rests on: the only collections whose
    iteration order could leak (the HashSets of taken names) are used for membership only, and nothing
    is threaded from one invocation to the next. Process-level determinism of the real macro (hash seeds,
    environment, parallelism, invocation order) is decided by the per-run correspondence over histories. *)
From Coq Require Import List String Ascii Bool.
From Entrait Require Import Tok Syn Opts Split FnParams Convert Codegen Expand.
From Entrait.Proofs Require Import Base PFnParams PC20.
Import ListNotations.
Local Open Scope list_scope.

(** The auto-generated parameter name depends on the *set* of taken names only. *)
Theorem c20_generate_ident_set_only : forall index a b,
  same_set a b ->
  generate_ident (S (List.length a)) index 0 a = generate_ident (S (List.length b)) index 0 b.
Proof. exact generate_ident_set_only. Qed.
Print Assumptions c20_generate_ident_set_only.

(** The de-conflicted parameter name depends on the *set* of taken names only. *)
Theorem c20_uniq_name_set_only : forall name a b,
  same_set a b ->
  uniq_name (S (List.length a)) name a = uniq_name (S (List.length b)) name b.
Proof. exact uniq_name_set_only. Qed.
Print Assumptions c20_uniq_name_set_only.

(** A sequence of invocations expands pointwise: the result for one invocation does not depend on what
    was expanded before it, nor on its position. *)
Theorem c20_no_state_across_invocations : forall l, expand_seq l = map expand_one l.
Proof. exact expand_seq_pointwise. Qed.
Print Assumptions c20_no_state_across_invocations.

Theorem c20_order_independent : forall l l' x,
  In x l -> In x l' -> forall k k', nth_error l k = Some x -> nth_error l' k' = Some x ->
  nth_error (expand_seq l) k = nth_error (expand_seq l') k'.
Proof. exact expand_order_independent. Qed.
Print Assumptions c20_order_independent.

(** non-vacuity: two different enumerations of the same set *)
Example c20_example :
  generate_ident 4 0 0 ["arg0"; "x"; "_arg0"]%string = generate_ident 5 0 0 ["_arg0"; "arg0"; "arg0"; "x"]%string /\
  generate_ident 4 0 0 ["arg0"; "x"; "_arg0"]%string = Some "__arg0"%string.
Proof. vm_compute. split; reflexivity. Qed.
Print Assumptions c20_example.
