(** * C04 — the impl header of fn / mod expansions with generic dependencies: the declared bounds bubble up exactly *)
From Coq Require Import List String Ascii Bool.
From Entrait Require Import Tok Syn Tie Decode Opts Split FnParams Convert Codegen Expand Proj Proj2 Proj3 ProjSide Examples.
From Entrait.Proofs Require Import Base PTie Shapes NonVac PC05 PC04.
Import ListNotations.
Local Open Scope string_scope.
Local Open Scope list_scope.

(** the bounds the analysis attaches to a function's dependency are the ones declared in its signature (the
    [impl] bounds, or the parameter's own bounds followed by the where-clause bounds on it), when no two type
    parameters of the function share a name; and it is a concrete dependency exactly when the signature says so *)
Theorem c04_declared_bounds : forall tg s o d tg',
  analyze_fn_deps tg s o = Ok (d, tg') ->
  is_concrete d = is_concrete (deps_kind (no_deps_value o) s) /\
  (nodup_str (tparam_names (s_gen s)) = true -> deps_bounds_of d = declared_bounds (no_deps_value o) s).
Proof. exact analyze_deps_c04. Qed.
Print Assumptions c04_declared_bounds.

(** the generated receiver is by value exactly when the dependency parameter is not taken by reference *)
Theorem c04_receiver : forall o tg s tf tg',
  analyze RSelfRef o tg s = Ok (tf, tg') -> self_by_value (tf_sig tf) = deps_by_value (no_deps_value o) s.
Proof. exact analyze_by_value. Qed.
Print Assumptions c04_receiver.

(** single fn, non-concrete dependency: the header is
    [impl<EntraitT: ::core::marker::Sync [+ ::core::marker::Send] + 'static, ..> .. for (::entrait::Impl<EntraitT> | EntraitT)
     where Self: b1 + .. + bm, ..] with [Send] iff the dependency is taken by value, [Impl<EntraitT>] iff mocking is
    enabled, [b1..bm] the declared bounds (no [Self:] predicate when there are none) *)
Theorem c04_fn : forall v attr h s body items a,
  expand_items v attr (InFn h s body) = Ok items ->
  parse_fn_attr attr = Ok a ->
  let o := apply_variant v (fa_opts a) in
  let nd := no_deps_value o in
  is_concrete (deps_kind nd s) = false ->
  c04_sig_side s = true ->
  exists f tr im rest, items = [f; ITrait tr; IImpl im] /\
    p_items (g_params (i_gen im)) = impl_t_param (deps_by_value nd s) :: rest /\
    i_self im = (if mockable o then impl_path_toks else [TId "EntraitT"]) /\
    match declared_bounds nd s with
    | [] => is_prefix self_lhs (first_where_toks (i_gen im)) = false
    | bs => first_where_toks (i_gen im) = self_lhs ++ join [pc "+"] bs
    end.
Proof. exact c04_fn_header. Qed.
Print Assumptions c04_fn.

(** module: the same, over all its public functions in order ([Send] iff some function takes its dependency by value) *)
Theorem c04_mod : forall v attr h name body sigs sf items a bitems fl,
  expand_items v attr (InMod h name body sigs sf) = Ok items ->
  parse_fn_attr attr = Ok a ->
  split_body true sigs body = Ok (bitems, fl) ->
  let o := apply_variant v (fa_opts a) in
  let nd := no_deps_value o in
  let src := map sig_of (body_fns bitems) in
  forallb c04_sig_side src = true ->
  exists attrs vs user tr im uv tree rest,
    items = [IMod attrs vs name (user ++ [ITrait tr; IImpl im]); IUse [] uv tree] /\
    p_items (g_params (i_gen im)) = impl_t_param (existsb (deps_by_value nd) src) :: rest /\
    i_self im = (if mockable o then impl_path_toks else [TId "EntraitT"]) /\
    match flat_map (declared_bounds nd) src with
    | [] => is_prefix self_lhs (first_where_toks (i_gen im)) = false
    | bs => first_where_toks (i_gen im) = self_lhs ++ join [pc "+"] bs
    end.
Proof. exact c04_mod_header. Qed.
Print Assumptions c04_mod.

Theorem c04_mock_enabled : forall o, mock_enabled o = mockable o.
Proof. exact mock_enabled_mockable. Qed.
Print Assumptions c04_mock_enabled.

(** the predicate the checker evaluates holds of every model expansion of functions whose type parameters have
    distinct names and whose where clauses have no predicate printed as [Self: ...] ([c04_side]) *)
Theorem c04_view_conditional : forall v attr i items,
  expand_items v attr i = Ok items -> c04_side (mkCtx v attr i) = true -> good (view_C04 (mkCtx v attr i) items).
Proof. exact c04_view_partial. Qed.
Print Assumptions c04_view_conditional.

(** the guarded predicate the checker runs — [view_C04g c items]: [view_C04 c items] where [c04_side c] holds, together
    with "the mock derivations are on the trait exactly when the implementation is restricted to [Impl<T>]" ([view_C10]
    on fn / mod inputs: the mock types get their implementations from those derivations) — holds of every model
    expansion, for all inputs *)
Theorem c04_view_sound : forall v attr i items,
  expand_items v attr i = Ok items -> good (view_C04g (mkCtx v attr i) items).
Proof. exact c04_view. Qed.
Print Assumptions c04_view_sound.

(** the unguarded predicate is refuted by [#[entrait(Foo)] fn foo<D: A, D: B>(d: &D) {}] ... *)
Theorem c04_view_unrestricted_refuted :
  exists v attr i items, expand_items v attr i = Ok items /\ ~ good (view_C04 (mkCtx v attr i) items).
Proof. exact c04_view_refuted. Qed.
Print Assumptions c04_view_unrestricted_refuted.

(** ... and by [#[entrait(Foo, no_deps)] fn foo() where Self: Sized {}] *)
Theorem c04_view_unrestricted_refuted2 :
  exists items, expand_items VEntrait [TId "Foo"; comma; TId "no_deps"] c04_cex_input2 = Ok items /\
                ~ good (view_C04 (mkCtx VEntrait [TId "Foo"; comma; TId "no_deps"] c04_cex_input2) items).
Proof. exact c04_view_refuted2. Qed.
Print Assumptions c04_view_unrestricted_refuted2.

(** The tie for the inline bounds of a generic parameter (coq/Tie.v, evaluated on every record of every run): a type / lifetime
    parameter that passes the check prints exactly its bound list after its name - the lists [c04_declared_bounds] speaks about are
    the bounds the user wrote, token for token. *)
Theorem c04_inline_bounds_are_the_parameters_own_tokens : forall g b bs,
  gp_kind g <> GConst -> gp_bounds g = b :: bs -> gparam_ok g = true ->
  exists tail, gp_rest g = pc ":" :: join [plus] (b :: bs) ++ tail /\
    (tail = [] \/ tail = [plus] \/ exists t u r, tail = t :: u :: r /\ (is_p "=" t = true \/ (is_p "+" t = true /\ is_p "=" u = true))).
Proof. exact gparam_ok_decomposes. Qed.
Print Assumptions c04_inline_bounds_are_the_parameters_own_tokens.

(** [D: A + 'static = App] as synx hands it over, and the same tokens with a bound list that leaves [A] out *)
Example c04_fields_example :
  gparam_ok (mkGP GType [] "D" [pc ":"; TId "A"; pc "+"; pc "'"; TId "static"; pc "="; TId "App"] [[TId "A"]; [pc "'"; TId "static"]]) = true /\
  gparam_ok (mkGP GType [] "D" [pc ":"; TId "A"; pc "+"; pc "'"; TId "static"; pc "="; TId "App"] [[pc "'"; TId "static"]]) = false.
Proof. vm_compute. split; reflexivity. Qed.
Print Assumptions c04_fields_example.

Example c04_nonvacuous :
  forallb (nonvacuous view_C04g) [ex_fn; ex_fn_nodeps; ex_fn_export; ex_mod] = true.
Proof. vm_compute. reflexivity. Qed.
Print Assumptions c04_nonvacuous.

(** the side condition holds of the recorded invocations *)
Example c04_side_nonvacuous :
  forallb (fun c => match c with
                    | Some c => c04_side (mkCtx (case_variant c) (c_attr c) (c_input c))
                    | None => false
                    end)
    [ex_fn; ex_fn_conc; ex_fn_nodeps; ex_fn_export; ex_mod] = true.
Proof. vm_compute. reflexivity. Qed.
Print Assumptions c04_side_nonvacuous.
