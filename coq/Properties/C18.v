(** * C18 — foreign attributes: they stay on the function; the generated trait / impl carry only macro-owned or
      [async_trait] / [automock] attributes; parameter attributes are stripped; method attributes ([cfg]s of
      module / impl-block fns, all attributes of trait methods) are mirrored on the generated methods *)
From Coq Require Import List String Ascii Bool.
From Entrait Require Import Tok Syn Opts Split FnParams Convert Codegen Expand Proj Proj2 Examples.
From Entrait.Proofs Require Import Base Shapes NonVac PC12 PC18 Cfg.
Import ListNotations.
Local Open Scope list_scope.

(** Every analysed function (fn, module fn, impl-block fn): no attributes of its own yet, and no parameter of
    the signature used for the impl method or of the trait method carries an attribute. *)
Theorem c18_analyzed : forall k o tg s tf tg' subs,
  analyze k o tg s = Ok (tf, tg') ->
  tf_attrs tf = [] /\ sig_no_param_attrs (tf_sig tf) = true /\
  sig_no_param_attrs (make_trait_fn_sig (tf_sig tf) subs o) = true.
Proof. exact analyze_attr_facts. Qed.
Print Assumptions c18_analyzed.

(** ... for any number of functions. *)
Theorem c18_no_param_attrs : forall k o subs sigs fns,
  Forall2 (fn_ok k o) sigs fns ->
  forallb sig_no_param_attrs (map tf_sig fns) = true /\
  forallb sig_no_param_attrs (map (fun tf => make_trait_fn_sig (tf_sig tf) subs o) fns) = true.
Proof. exact no_param_attrs_all. Qed.
Print Assumptions c18_no_param_attrs.

(** The attribute list of a generated trait: macro-owned attributes (unimock / [::entrait::entrait(..)] /
    mockall), followed by the user's [async_trait] / [automock] attributes — or, for an entraited trait, by the
    trait's own attributes as written. *)
Theorem c18_trait_attrs : forall o ti mode subs lit v name tg colon supers fns im,
  t_attrs (gen_trait_def o ti mode subs lit v name tg colon supers fns im)
  = macro_attrs o ti mode im fns ++ match lit with Some l => l | None => filter is_trait_sub subs end.
Proof. exact gen_trait_def_attrs. Qed.
Print Assumptions c18_trait_attrs.

Theorem c18_macro_attrs_owned : forall o ti mode im fns, forallb macro_owned (macro_attrs o ti mode im fns) = true.
Proof. exact macro_attrs_owned. Qed.
Print Assumptions c18_macro_attrs_owned.

(** fn: the whole picture. *)
Theorem c18_fn : forall v attr h s body items,
  expand_items v attr (InFn h s body) = Ok items ->
  exists a tr im tf mode,
    parse_fn_attr attr = Ok a /\
    items = [IFn (h_attrs h) (h_vis h) (merged_sig h s) body; ITrait tr; IImpl im] /\
    t_attrs tr = macro_attrs (apply_variant v (fa_opts a)) TPlain mode MSingleFn [tf] ++ filter is_trait_sub (h_attrs h) /\
    i_attrs im = filter is_async_trait (h_attrs h) /\
    trait_sigs tr = [([], make_trait_fn_sig (tf_sig tf) (h_attrs h) (apply_variant v (fa_opts a)))] /\
    map (fun '(x, sg, _) => (x, sg)) (impl_fns im) = [([], tf_sig tf)] /\
    sig_no_param_attrs (tf_sig tf) = true.
Proof. exact c18_fn_explicit. Qed.
Print Assumptions c18_fn.

(** module / impl block: [with_cfg_attrs] gives each trait fn exactly the [cfg] attributes of its source fn, and
    both generated methods carry them. *)
Theorem c18_cfg_attrs : forall fns src, List.length fns = List.length src ->
  map tf_attrs (with_cfg_attrs fns src) = map (filter is_cfg_attr) (map (fun '(a, _, _, _) => a) src).
Proof. exact with_cfg_attrs_attrs. Qed.
Print Assumptions c18_cfg_attrs.

Theorem c18_methods : forall o ti mode subs lit v name tg colon supers im fns0 src tref ind tg' mode' subs' ib,
  List.length fns0 = List.length src ->
  gen_impl_block o tref ind tg' im mode' subs' (with_cfg_attrs fns0 src) = Ok ib ->
  map fst (trait_sigs (gen_trait_def o ti mode subs lit v name tg colon supers (with_cfg_attrs fns0 src) im))
    = map (filter is_cfg_attr) (map (fun '(a, _, _, _) => a) src) /\
  map (fun '(a, _, _) => a) (impl_fns ib) = map (filter is_cfg_attr) (map (fun '(a, _, _, _) => a) src).
Proof. exact c18_methods_cfg. Qed.
Print Assumptions c18_methods.

(** what that means in a build: whatever truth values the build assigns to cfg predicates ([holds], arbitrary), the
    k-th trait method and the k-th delegating method are compiled exactly when the k-th function of the module /
    impl block is ([enabled]: every [cfg(p)] attribute on the item holds) — a cfg-disabled function leaves no
    dangling method behind, an enabled one loses none. *)
Theorem c18_no_dangling_method : forall holds o ti mode subs lit v name tg colon supers im fns0 src tref ind tg' mode' subs' ib,
  List.length fns0 = List.length src ->
  gen_impl_block o tref ind tg' im mode' subs' (with_cfg_attrs fns0 src) = Ok ib ->
  map (enabled holds) (map fst (trait_sigs (gen_trait_def o ti mode subs lit v name tg colon supers (with_cfg_attrs fns0 src) im)))
    = map (enabled holds) (map (fun '(a, _, _, _) => a) src) /\
  map (enabled holds) (map (fun '(a, _, _) => a) (impl_fns ib)) = map (enabled holds) (map (fun '(a, _, _, _) => a) src).
Proof.
  intros holds o ti mode subs lit v name tg colon supers im fns0 src tref ind tg' mode' subs' ib Hl Hg.
  destruct (c18_methods_cfg o ti mode subs lit v name tg colon supers im fns0 src tref ind tg' mode' subs' ib Hl Hg) as [-> ->].
  split; apply map_enabled_filter.
Qed.
Print Assumptions c18_no_dangling_method.

(** trait: method attributes are mirrored on the re-emitted trait and on the delegating impl. *)
Theorem c18_trait : forall v attr h t items,
  expand_items v attr (InTrait h t) = Ok items ->
  exists tr ds im,
    items = [ITrait tr] ++ map ITrait ds ++ [IImpl im] /\
    map fst (trait_sigs tr) = map fst (trait_sigs t) /\
    map (fun '(a, _, _) => a) (impl_fns im) = map fst (trait_sigs t).
Proof. exact c18_trait_explicit. Qed.
Print Assumptions c18_trait.

(** entraited traits with a delegation-target trait ([delegate_by = Trait] / [= ref] with an impl-trait name): the methods of
    that generated trait carry exactly the attributes of the analysed methods - a [cfg] on a method of the user's trait gates the
    same method of the trait the implementations are written against (conjunct [target_attrs_mirrored] of [view_C18]) *)
Theorem c18_delegation_target_attrs : forall a v tg fns subs deleg ds,
  delegation_trait_defs a v tg fns subs = Ok deleg -> deleg = map ITrait ds ->
  match ds with d :: _ => map fst (trait_sigs d) = map tf_attrs fns | [] => True end.
Proof. exact delegation_trait_defs_attrs. Qed.
Print Assumptions c18_delegation_target_attrs.

(** The predicate the checker evaluates on the implementation's output holds of every model expansion. *)
Theorem c18_view_sound : forall v attr i items,
  expand_items v attr i = Ok items -> good (view_C18 (mkCtx v attr i) items).
Proof. exact c18_view. Qed.
Print Assumptions c18_view_sound.

Example c18_nonvacuous :
  forallb (nonvacuous view_C18)
          [ex_fn; ex_fn_conc; ex_fn_nodeps; ex_fn_export; ex_mod; ex_trait; ex_trait_self; ex_trait_deleg;
           ex_trait_dyn; ex_impl; ex_impl_dyn] = true.
Proof. vm_compute. reflexivity. Qed.
Print Assumptions c18_nonvacuous.
