(** * C11 — the generated unimock attribute: prefix, api, unmock_with *)
From Coq Require Import List String Ascii Bool.
From Entrait Require Import Tok Syn Opts Split Convert Codegen Expand Proj Proj2 Examples.
From Entrait.Proofs Require Import Base Shapes NonVac PC10 PC11.
Import ListNotations.
Local Open Scope list_scope.

(** The arguments are described by [Proj2.unimock_attr_spec o single_fn raw_trait entries]:
    [::entrait::__unimock::unimock(prefix = ::entrait::__unimock, api = [Name] | Name, unmock_with = [entries])]
    with [api] present iff a [mock_api] is given — bracketed (the mock function itself) for a single fn, a bare
    module name otherwise — and [unmock_with] present iff not an entraited trait and there is a method. *)

(** one [unmock_with] entry: [f] for a generic dependency, [_] for a concrete one, [f(a, b, ..)] with the
    emitted parameter names for [no_deps] *)
Theorem c11_entry_of_fn : forall k o tg s tf tg',
  analyze k o tg s = Ok (tf, tg') ->
  unmock_entry tf =
  match deps_kind (no_deps_value o) s with
  | DGeneric _ _ => [TId (s_name s)]
  | DConcrete _ => [TId "_"%string]
  | DNoDeps => [TId (s_name s); TG Paren (join [comma] (map (fun n => [TId n]) (typed_names (tf_sig tf))))]
  end.
Proof. exact c11_entry. Qed.
Print Assumptions c11_entry_of_fn.

(** the dependency kind the macro's analysis finds is the documented one ([deps_kind]) *)
Theorem c11_deps_kind : forall tg s o d tg',
  analyze_fn_deps tg s o = Ok (d, tg') -> same_kind d (deps_kind (no_deps_value o) s).
Proof. exact analyze_deps_kind. Qed.
Print Assumptions c11_deps_kind.

(** one entry per trait method, in order, for any number of functions *)
Theorem c11_entries_in_order : forall k o subs sigs fns tg tg',
  analyze_all k o tg sigs = Ok (fns, tg') ->
  zip_entries (no_deps_value o) sigs (map (fun tf => make_trait_fn_sig (tf_sig tf) subs o) fns) = map unmock_entry fns.
Proof. exact c11_entries. Qed.
Print Assumptions c11_entries_in_order.

(** fn: with unimock on and a [mock_api], the trait's first attribute is the (export-gated) unimock
    attribute with [api = [Name]] and the single entry *)
Theorem c11_fn : forall v attr h s body items,
  expand_items v attr (InFn h s body) = Ok items ->
  exists a f tr im,
    parse_fn_attr attr = Ok a /\ items = [f; ITrait tr; IImpl im] /\
    let o := apply_variant v (fa_opts a) in
    unimock_value o = true -> is_some (o_mock_api o) = true ->
    exists rest,
      t_attrs tr = export_gated o (unimock_attr_spec o true false
                                     (zip_entries (no_deps_value o) [merged_sig h s] (map snd (trait_sigs tr)))) :: rest.
Proof. exact c11_fn_attr. Qed.
Print Assumptions c11_fn.

(** mod: [api = Name] and one entry per trait method in source order *)
Theorem c11_mod : forall v attr h name body sigs sf items,
  expand_items v attr (InMod h name body sigs sf) = Ok items ->
  exists a user tr im src,
    parse_fn_attr attr = Ok a /\
    items = [IMod (h_attrs h) (h_vis h) name (user ++ [ITrait tr; IImpl im]);
             IUse [] (fa_vis a) ([TId name] ++ path_sep ++ [TId (fa_trait a)])] /\
    source_fns (InMod h name body sigs sf) = Some src /\
    let o := apply_variant v (fa_opts a) in
    unimock_value o = true -> is_some (o_mock_api o) = true ->
    exists rest,
      t_attrs tr = export_gated o (unimock_attr_spec o false false
                                     (zip_entries (no_deps_value o) (map sig_of src) (map snd (trait_sigs tr)))) :: rest.
Proof. exact c11_mod_attr. Qed.
Print Assumptions c11_mod.

(** entraited trait: [prefix] and, when given, [api = Name]; [unmock_with] omitted *)
Theorem c11_trait : forall v attr h t items,
  expand_items v attr (InTrait h t) = Ok items ->
  exists a tr rest_items,
    parse_trait_attr attr = Ok a /\ items = ITrait tr :: rest_items /\
    let o := apply_variant v (ta_opts a) in
    unimock_value o = true ->
    exists rest, t_attrs tr = export_gated o (unimock_attr_spec o false true []) :: rest.
Proof. exact c11_trait_attr. Qed.
Print Assumptions c11_trait.

(** the predicate the checker evaluates on the implementation's output holds of every model expansion *)
Theorem c11_view_sound : forall v attr i items,
  expand_items v attr i = Ok items -> good (view_C11 (mkCtx v attr i) items).
Proof. exact c11_view. Qed.
Print Assumptions c11_view_sound.

(** non-vacuity *)
Example c11_nonvacuous :
  forallb (nonvacuous view_C11) [ex_fn; ex_fn_nodeps; ex_mod; ex_trait_self] = true.
Proof. vm_compute. reflexivity. Qed.
Print Assumptions c11_nonvacuous.
