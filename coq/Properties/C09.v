(** * C09 — trait mode re-emits the entraited trait unchanged (modulo the async rewrite and the mock attributes) *)
From Coq Require Import List String Ascii Bool.
From Entrait Require Import Tok Syn Opts Split FnParams Convert Codegen Expand Proj Proj2 Proj3 Known Examples.
From Entrait.Proofs Require Import Base Shapes NonVac PC06 PC09.
Import ListNotations.
Local Open Scope list_scope.

(** The re-emitted trait ([PC06.c06_trait], the first item of every successful trait-mode expansion, see
    [C06.c06_expansion_shape]) has the input trait's name, visibility, generic parameters, supertraits
    and where predicates; its attributes are the mock derivations the macro owns followed by the trait's
    own attributes as written; its items are the trait's methods (attributes and signature, modulo the
    async rewrite), bodiless. It is never [unsafe] / [auto] — part of the recorded finding below. *)
Theorem c09_reemitted_trait : forall a h t,
  let tr := c06_trait a h t in
  t_name tr = t_name t /\ t_vis tr = h_vis h /\ t_unsafe tr = false /\ t_auto tr = false /\
  p_items (g_params (t_gen tr)) = p_items (g_params (t_gen t)) /\
  t_colon tr = t_colon t /\ t_supers tr = t_supers t /\
  where_items (t_gen tr) = where_items (t_gen t) /\
  t_attrs tr = mock_attrs (ta_opts a) (map tf_of_method (trait_sigs t)) ++ h_attrs h /\
  t_items tr = map (fun x => TFn (fst x) (make_trait_fn_sig (snd x) (h_attrs h) (ta_opts a)) None true) (trait_sigs t).
Proof. exact c09_trait_fields. Qed.
Print Assumptions c09_reemitted_trait.

(** what the macro prepends is only mock attributes *)
Theorem c09_added_attrs : forall o fns, forallb is_mock_attr (mock_attrs o fns) = true.
Proof. exact mock_attrs_are_mock. Qed.
Print Assumptions c09_added_attrs.

(** For a trait body of any length without associated types, default bodies and unsupported items, the
    re-emitted items correspond one to one, in order: same attributes, same signature — an [async fn]
    becoming [fn .. -> impl ::core::future::Future<Output = R> [+ ::core::marker::Send]] exactly when
    [async_trait] is not in use. *)
Theorem c09_items_preserved : forall o subs l,
  Forall (fun x => match x with TOther _ => False | _ => True end) l ->
  existsb c09_lost l = false ->
  c09_items (future_send o) (contains_async_trait subs) l
            (map (fun x => TFn (fst x) (make_trait_fn_sig (snd x) subs o) None true) (items_sigs l)) = true.
Proof. exact c09_items_ok. Qed.
Print Assumptions c09_items_preserved.

(** The predicate the checker evaluates on the implementation's output holds of every model expansion
    of an input outside the recorded class [Known.known_C09]. *)
Theorem c09_view_sound : forall v attr i items,
  expand_items v attr i = Ok items -> known_C09 i = false -> good (view_C09 (mkCtx v attr i) items).
Proof. exact c09_view. Qed.
Print Assumptions c09_view_sound.

(** Inside the class the property is false (recorded finding F7): an associated type, a default body,
    and [unsafe] are each lost by a successful expansion. *)
Theorem c09_refuted :
  exists v attr i items, expand_items v attr i = Ok items /\ known_C09 i = true /\
                         v_holds (view_C09 (mkCtx v attr i) items) = false.
Proof. exact PC09.c09_refuted. Qed.
Print Assumptions c09_refuted.

Theorem c09_refuted_assoc_type : c09_refutes c09_witness_type.
Proof. exact c09_refuted_type. Qed.
Print Assumptions c09_refuted_assoc_type.

Theorem c09_refuted_default_body : c09_refutes c09_witness_default.
Proof. exact c09_refuted_default. Qed.
Print Assumptions c09_refuted_default_body.

Theorem c09_refuted_unsafe_trait : c09_refutes c09_witness_unsafe.
Proof. exact c09_refuted_unsafe. Qed.
Print Assumptions c09_refuted_unsafe_trait.

Example c09_nonvacuous :
  forallb (nonvacuous view_C09) [ex_trait; ex_trait_self; ex_trait_deleg; ex_trait_dyn] = true.
Proof. vm_compute. reflexivity. Qed.
Print Assumptions c09_nonvacuous.

(** the recorded examples lie outside the known class, so the theorem speaks about them *)
Example c09_examples_outside_known :
  forallb (fun c => match c with Some c => negb (known_C09 (Decode.c_input c)) | None => false end)
          [ex_trait; ex_trait_self; ex_trait_deleg; ex_trait_dyn] = true.
Proof. vm_compute. reflexivity. Qed.
Print Assumptions c09_examples_outside_known.
