(** * C15 — misuse yields a compile-time diagnostic; the macro never panics *)
From Coq Require Import List String Ascii Bool.
From Entrait Require Import Tok Syn Opts Split FnParams Convert Codegen Expand Proj Proj2 Proj3 Proj4 Examples.
From Entrait.Proofs Require Import Base Shapes PC15.
Import ListNotations.
Local Open Scope list_scope.

(** For every macro variant, every attribute token list (well-formed or not) and every input the
    compiler can hand over (fn / mod / trait / impl, with any signatures, patterns, bodies, and the
    inputs syn rejects), the expansion is a token stream or a [compile_error!] — never a panic (every
    [panic!] / [unwrap] / [Ident::new] site of the Rust code reachable from the modelled domain is an
    explicit [Panic] outcome of the model) and never an exhausted loop bound. *)
Theorem c15_never_panics : forall v attr i, no_panic (expand_items v attr i).
Proof. exact expand_items_no_panic. Qed.
Print Assumptions c15_never_panics.

Theorem c15_outcome : forall v attr i, match expand v attr i with OPanic _ | OOut _ => False | _ => True end.
Proof. exact expand_never_panics. Qed.
Print Assumptions c15_outcome.

(** The attribute parsers terminate on every token list (the loop bounds of the model are never hit). *)
Theorem c15_fn_attr_total : forall ts, no_panic (parse_fn_attr ts).
Proof. exact parse_fn_attr_no_panic. Qed.
Print Assumptions c15_fn_attr_total.
Theorem c15_trait_attr_total : forall ts, no_panic (parse_trait_attr ts).
Proof. exact parse_trait_attr_no_panic. Qed.
Print Assumptions c15_trait_attr_total.
Theorem c15_impl_attr_total : forall ts, no_panic (parse_impl_attr ts).
Proof. exact parse_impl_attr_no_panic. Qed.
Print Assumptions c15_impl_attr_total.

(** The body splitter terminates on every token list and every signature oracle. *)
Theorem c15_split_total : forall in_mod sigs body, no_panic (split_body in_mod sigs body).
Proof. exact split_body_no_panic. Qed.
Print Assumptions c15_split_total.

(** Documented misuses — missing dependency parameter without [no_deps], a [self] receiver, a concrete
    dependency inside a module, an unknown option, an option the target does not support, a custom
    [delegate_by] without a delegation-target trait — are each rejected with their specific message
    ([Proj4.misuse_msg] computes that message from the input alone). *)
Theorem c15_misuse_message : forall v attr i m,
  misuse_msg (mkCtx v attr i) = Some m -> expand_items v attr i = Err (EMsg m).
Proof. exact misuse_gets_its_message. Qed.
Print Assumptions c15_misuse_message.

(** The predicate the checker evaluates on the implementation's outcome holds of the model's outcome. *)
Theorem c15_view_sound : forall v attr i,
  good (view_C15 (mkCtx v attr i)
                 (match expand_items v attr i with
                  | Ok _ => CTokens
                  | Err (EMsg m) => CError (Some (quote_lit m))
                  | Err ESyn => CError None
                  | Panic _ => CPanic
                  | OutOfDomain _ => CError None
                  end) true).
Proof. exact c15_view. Qed.
Print Assumptions c15_view_sound.

(** non-vacuity: the documented misuses on concrete inputs *)
Definition fn_no_params : input :=
  InFn (mkHead [] [] false false)
       (mkSig false false false None "foo" no_generics pempty None None) [TG Brace []].

Example c15_missing_receiver :
  expand_items VEntrait [TId "Foo"] fn_no_params = Err (EMsg no_receiver_msg) /\
  misuse_msg (mkCtx VEntrait [TId "Foo"] fn_no_params) = Some no_receiver_msg.
Proof. vm_compute. split; reflexivity. Qed.
Print Assumptions c15_missing_receiver.

Example c15_unknown_option :
  expand_items VEntrait [TId "Foo"; pc ","; TId "bogus"] fn_no_params = Err (unknown_option "bogus").
Proof. vm_compute. reflexivity. Qed.
Print Assumptions c15_unknown_option.
