(** * C06 — an entraited trait is implemented for [::entrait::Impl<T>] by forwarding to the application (trait mode, no delegation target) *)
From Coq Require Import List String Ascii Bool.
From Entrait Require Import Tok Syn Opts Split FnParams Convert Codegen Expand Proj Proj2 Proj3 Examples.
From Entrait.Proofs Require Import Base Shapes NonVac PC06 Sem Sem2.
Import ListNotations.
Local Open Scope list_scope.

(** The macro accepts an entraited trait only if it has no item of an unsupported kind and every
    parameter of every method is a receiver or an identifier pattern. It then works on one [NoDeps]
    trait fn per method, in declaration order, carrying the method's own signature, attributes and
    asyncness — for any number of items. *)
Theorem c06_analyzed : forall l fns,
  analyze_trait_items l = Ok fns ->
  fns = map tf_of_method (items_sigs l) /\
  Forall pident_params (items_sigs l) /\
  Forall (fun x => match x with TOther _ => False | _ => True end) l.
Proof. exact analyze_trait_items_spec. Qed.
Print Assumptions c06_analyzed.

(** The arguments of the forwarding call are the method's own parameter identifiers, in order
    (receivers are skipped) — for any number of parameters. *)
Theorem c06_call_args : forall l, forallb is_pident l = true ->
  trait_call_args l = Ok (map (fun n => [TId n]) (plain_names l)).
Proof. exact trait_call_args_pident. Qed.
Print Assumptions c06_call_args.

(** Every method of the forwarding impl is the source method's signature and attributes with the body
    [{ <call> [.await] }], where <call> is [Proj3.c06_call]: [self.as_ref().m(args)] by default,
    [self.as_ref().as_ref().m(args)] / [self.as_ref().borrow().m(args)] for [delegate_by = ref / Borrow] —
    for any number of methods. *)
Theorem c06_methods : forall a ca src methods,
  Forall pident_params src ->
  map_res (delegation_method a ca) (map tf_of_method src) = Ok methods ->
  methods = map (c06_method_item a ca) src.
Proof. exact delegation_methods_spec. Qed.
Print Assumptions c06_methods.

(** The bound the macro puts on [EntraitT] is the one the property names ([Proj3.c06_bound]). *)
Theorem c06_bound_eq : forall a ca t,
  impl_t_bounds a ca (t_name t) (trait_tg t) = c06_bound a ca (t_name t) (t_gen t).
Proof. exact impl_t_bounds_trait_tg. Qed.
Print Assumptions c06_bound_eq.

(** A successful trait-mode expansion consists of the re-emitted trait, the delegation-target traits and
    exactly the impl block [PC06.c06_impl]:
    [impl<EntraitT: ::core::marker::Sync + 'static, P..> Trait<P..> for ::entrait::Impl<EntraitT>
       where EntraitT: <c06_bound>, W.. { forwarding methods }]. *)
Theorem c06_expansion_shape : forall v attr h t items,
  expand_items v attr (InTrait h t) = Ok items ->
  exists a0 tr ds,
    parse_trait_attr attr = Ok a0 /\
    items = [ITrait tr] ++ map ITrait ds ++ [IImpl (c06_impl (eff_trait_attr v a0) h t)] /\
    parts (InTrait h t) items = Some (GTrait tr ds (c06_impl (eff_trait_attr v a0) h t)) /\
    Forall pident_params (trait_sigs t).
Proof. exact c06_expansion. Qed.
Print Assumptions c06_expansion_shape.

Theorem c06_impl_block_header : forall a h t,
  i_self (c06_impl a h t) = impl_path_toks /\
  app_param_toks (i_gen (c06_impl a h t)) = expected_impl_t false /\
  first_where_toks (i_gen (c06_impl a h t)) = c06_bound a (has_async (map snd (trait_sigs t))) (t_name t) (t_gen t) /\
  i_trait (c06_impl a h t) = Some ([TId (t_name t)] ++ trait_args (t_gen t)) /\
  (* the impl declares the trait's lifetimes, then the application, then the trait's other parameters without defaults *)
  p_items (g_params (i_gen (c06_impl a h t))) = trait_impl_params (p_items (g_params (t_gen t))) /\
  (* after the bound on the application, the impl's where clause repeats the trait's *)
  tl (where_items (i_gen (c06_impl a h t))) = where_items (t_gen t).
Proof. exact c06_impl_header. Qed.
Print Assumptions c06_impl_block_header.

(** What a forwarding method does (mini-semantics of Proofs/Sem.v, Sem2.v): evaluating its body with the
    method's parameters bound positionally to the caller's arguments performs exactly one call — of method
    [m] on what [self.as_ref()] / [self.into_inner()] ([.as_ref()] / [.borrow()]) reaches, of
    [<T::Target as I<T>>::m], or of method [m] of the [dyn I<T>] obtained from [T] by [as_ref] / [borrow], the
    last two with the caller's [&Impl<T>] first — passing the caller's arguments 0..n-1 in declared order, awaited
    iff async. [c06_expected_event] is defined for every delegation kind ([c06_semantics_total]).
    (Hypotheses: the user's parameter names are distinct and none is [self] — rustc rejects anything else.) *)
Theorem c06_forwarding_semantics : forall a ca s ev,
  NoDup (typed_names s) -> ~ In "self"%string (typed_names s) ->
  c06_expected_event a s = Some ev ->
  eval_provider_call (typed_names s)
    [TG Brace (c06_call a ca s ++ (if s_async s then [pc "."; TId "await"] else []))] = Some ev.
Proof. exact eval_c06_call. Qed.
Print Assumptions c06_forwarding_semantics.

Theorem c06_semantics_total : forall a s, exists ev, c06_expected_event a s = Some ev.
Proof. exact c06_expected_event_total. Qed.
Print Assumptions c06_semantics_total.

(** The predicate the checker evaluates on the implementation's output holds of every model expansion. *)
Theorem c06_view_sound : forall v attr i items,
  expand_items v attr i = Ok items -> good (view_C06 (mkCtx v attr i) items).
Proof. exact c06_view. Qed.
Print Assumptions c06_view_sound.

Example c06_nonvacuous : forallb (nonvacuous view_C06) [ex_trait; ex_trait_self] = true.
Proof. vm_compute. reflexivity. Qed.
Print Assumptions c06_nonvacuous.
