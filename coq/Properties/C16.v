(** * C16 — generated parameter names are usable for every parameter pattern list *)
From Coq Require Import List String Ascii Bool.
From Entrait Require Import Tok Syn Opts Split FnParams Convert Codegen Expand Proj Examples.
From Entrait.Proofs Require Import Base Shapes NonVac PFnParams PC16.
Import ListNotations.
Local Open Scope list_scope.

(** The renaming is total: for every function name and every parameter list — of any length, with any
    patterns — it returns a parameter list (the two name generators terminate: a fresh name exists among
    the first |taken|+1 candidates, by pigeonhole). No fuel exhaustion, no error, no panic. *)
Theorem c16_total : forall fn_name l, exists l', fix_fn_param_idents fn_name l = Ok l'.
Proof. exact fix_total. Qed.
Print Assumptions c16_total.

(** Every emitted parameter is a receiver or a plain identifier (no [mut] / [ref] / [@]); the identifiers
    are pairwise distinct and none equals the function's own name — as identifiers, i.e. with a raw
    identifier [r#x] counted as the [x] it is to the compiler; attributes and types are untouched and the
    parameters stay in their positions. *)
Theorem c16_usable : forall fn_name l l',
  fix_fn_param_idents fn_name l = Ok l' ->
  Forall2 same_shape l l' /\
  forallb is_plain_ident_arg l' = true /\
  NoDup (map unraw (plain_names l')) /\ ~ In (unraw fn_name) (map unraw (plain_names l')).
Proof. exact fix_usable. Qed.
Print Assumptions c16_usable.

(** in particular they are distinct, and differ from the function's name, as strings *)
Theorem c16_usable_strings : forall fn_name l l',
  fix_fn_param_idents fn_name l = Ok l' ->
  NoDup (plain_names l') /\ ~ In fn_name (plain_names l').
Proof. exact fix_usable_strings. Qed.
Print Assumptions c16_usable_strings.

(** The rules: whenever the names the rules ask for (a plain binding's own name; the single lower-case
    binding of a destructuring pattern) are distinct identifiers and differ from the function name, every
    such parameter gets exactly that name (a raw identifier stays raw); the others get some generated name. *)
Theorem c16_rules_hold : forall fn_name l l',
  fix_fn_param_idents fn_name l = Ok l' ->
  let desired := map desired_name (filter is_typed l) in
  NoDup (map unraw (somes desired)) -> ~ In (unraw fn_name) (map unraw (somes desired)) ->
  rules_ok desired (plain_names l') = true.
Proof. exact fix_rules. Qed.
Print Assumptions c16_rules_hold.

(** Forwarding: the delegating call of every analysed function passes exactly the identifiers of the
    emitted signature, in order. *)
Theorem c16_forward : forall k o tg s tf tg',
  analyze k o tg s = Ok (tf, tg') ->
  call_args (p_items (s_inputs (tf_sig tf))) = Ok (map (fun n => [TId n]) (typed_names (tf_sig tf))).
Proof. exact analyze_call_args. Qed.
Print Assumptions c16_forward.

(** Every function the macro converts (fn, module fn, impl-block fn; any receiver kind) gets usable
    names that follow the rules. *)
Theorem c16_converted : forall k o tg s tf tg',
  analyze k o tg s = Ok (tf, tg') ->
  names_usable (tf_sig tf) = true /\ c16_rules k (no_deps_value o) s (tf_sig tf) = true.
Proof. exact c16_sig. Qed.
Print Assumptions c16_converted.

(** The predicate the checker evaluates on the implementation's output holds of every model expansion. *)
Theorem c16_view_sound : forall v attr i items,
  expand_items v attr i = Ok items -> good (view_C16 (mkCtx v attr i) items).
Proof. exact c16_view. Qed.
Print Assumptions c16_view_sound.

Example c16_nonvacuous :
  forallb (nonvacuous view_C16) [ex_fn; ex_fn_conc; ex_fn_nodeps; ex_fn_export; ex_mod; ex_impl; ex_impl_dyn] = true.
Proof. vm_compute. reflexivity. Qed.
Print Assumptions c16_nonvacuous.

(** the renaming on a list that needs all three stages and the final pass:
    [fn foo(foo: _, (a, b): _, N(x): _, mut arg1: _, _: _)] *)
Example c16_example :
  fix_fn_param_idents "foo"
    [ArgTyped [] (PIdent false false "foo" []) (TyOther []);
     ArgTyped [] (PNon [] ["a"; "b"]) (TyOther []);
     ArgTyped [] (PNon [] ["x"]) (TyOther []);
     ArgTyped [] (PIdent false true "arg1" []) (TyOther []);
     ArgTyped [] (PNon [] []) (TyOther [])]%string
  = Ok [ArgTyped [] (PIdent false false "foo_" []) (TyOther []);
        ArgTyped [] (PIdent false false "_arg1" []) (TyOther []);
        ArgTyped [] (PIdent false false "x" []) (TyOther []);
        ArgTyped [] (PIdent false false "arg1" []) (TyOther []);
        ArgTyped [] (PIdent false false "arg4" []) (TyOther [])]%string.
Proof. vm_compute. reflexivity. Qed.
Print Assumptions c16_example.
