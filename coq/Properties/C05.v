(** * C05 — concrete dependencies: the nested entrait attribute, and an implementation for the concrete type *)
From Coq Require Import List String Ascii Bool.
From Entrait Require Import Tok Syn Opts Split Convert Codegen Expand Proj Proj2 Proj3 ProjSide Examples.
From Entrait.Proofs Require PC05b.
From Entrait.Proofs Require Import Base Shapes NonVac PC05.
Import ListNotations.
Local Open Scope string_scope.
Local Open Scope list_scope.

(** single fn whose dependency is a concrete type [ty] (the first parameter's type, references and
    parentheses stripped): the generated trait carries [::entrait::entrait(unimock = false, mockall = false)]
    exactly once; the implementation is [impl<the fn's own non-lifetime parameters> Trait<..> for ty] — no
    [EntraitT] parameter is added *)
Theorem c05_concrete_fn : forall v attr h s body items a ty,
  expand_items v attr (InFn h s body) = Ok items ->
  parse_fn_attr attr = Ok a ->
  deps_kind (no_deps_value (apply_variant v (fa_opts a))) s = DConcrete ty ->
  ty = strip_refs (first_ty s) /\
  exists f tr im, items = [f; ITrait tr; IImpl im] /\
    filter (toks_eqb entrait_for_trait_attr) (t_attrs tr) = [entrait_for_trait_attr] /\
    t_name tr = fa_trait a /\
    i_self im = print_fty ty /\
    p_items (g_params (i_gen im)) = lifted_params (s_gen s) /\
    i_trait im = Some ([TId (fa_trait a)] ++ print_arguments false (lifted_params (s_gen s))).
Proof. exact c05_concrete. Qed.
Print Assumptions c05_concrete_fn.

(** any other dependency kind: the nested attribute is absent and the impl's first parameter is [EntraitT] *)
Theorem c05_other_fn : forall v attr h s body items a,
  expand_items v attr (InFn h s body) = Ok items ->
  parse_fn_attr attr = Ok a ->
  (forall ty, deps_kind (no_deps_value (apply_variant v (fa_opts a))) s <> DConcrete ty) ->
  exists f tr im bv rest, items = [f; ITrait tr; IImpl im] /\
    filter (toks_eqb entrait_for_trait_attr) (t_attrs tr) = [] /\
    p_items (g_params (i_gen im)) = impl_t_param bv :: rest.
Proof. exact c05_not_concrete. Qed.
Print Assumptions c05_other_fn.

(** the dependency kind read off the source signature is the one the analysis finds *)
Theorem c05_kind_agrees : forall tg s o d tg',
  analyze_fn_deps tg s o = Ok (d, tg') ->
  (no_deps_value o = true /\ d = DNoDeps /\ deps_kind (no_deps_value o) s = DNoDeps) \/
  (no_deps_value o = false /\
   (exists x p rest, p_items (s_inputs s) = ArgTyped x p (first_ty s) :: rest) /\
   deps_kind (no_deps_value o) s = deps_kind_of_type (s_gen s) (first_ty s) /\
   kind_agrees tg (s_gen s) (first_ty s) (deps_kind (no_deps_value o) s) d tg').
Proof. exact analyze_deps_kind. Qed.
Print Assumptions c05_kind_agrees.

(** the predicate the checker evaluates holds of every model expansion, except when the function's own
    first non-lifetime generic parameter prints with a leading [EntraitT] ([c05_clash]) ... *)
Theorem c05_view_conditional : forall v attr i items,
  expand_items v attr i = Ok items -> c05_clash i = false -> good (view_C05 (mkCtx v attr i) items).
Proof. exact c05_view_partial. Qed.
Print Assumptions c05_view_conditional.

(** the guarded predicate the checker runs ([view_C05g c items := if c05_clash (x_input c) then na else view_C05 c items])
    holds of every model expansion, for all inputs *)
Theorem c05_view_sound : forall v attr i items,
  expand_items v attr i = Ok items -> good (view_C05g (mkCtx v attr i) items).
Proof. exact c05_view. Qed.
Print Assumptions c05_view_sound.

(** ... which no function without a type parameter named [EntraitT] does *)
Theorem c05_no_clash : forall h s body,
  forallb (fun p => negb (is_tparam "EntraitT" p)) (p_items (g_params (s_gen s))) = true ->
  c05_clash (InFn h s body) = false.
Proof. exact no_entrait_t_no_clash. Qed.
Print Assumptions c05_no_clash.

(** the unguarded predicate is refuted by
    [#[entrait(Foo)] fn foo<EntraitT>(deps: &App, x: EntraitT) {}] (the predicate takes the user's parameter for the macro's) *)
Theorem c05_view_unrestricted_refuted :
  exists v attr i items, expand_items v attr i = Ok items /\ ~ good (view_C05 (mkCtx v attr i) items).
Proof. exact c05_view_refuted. Qed.
Print Assumptions c05_view_unrestricted_refuted.

(** Composition (the second hop): the trait emitted for a concrete-dependency function carries the nested
    [#[::entrait::entrait(unimock = false, mockall = false)]]; handing that trait back to the macro (what the
    compiler does next) always succeeds — under either facade variant, whatever other attributes remain on
    it — and its output satisfies C06's predicate: an impl of the trait for [::entrait::Impl<EntraitT>],
    [where EntraitT: Trait + Sync], whose methods are [self.as_ref().m(args)[.await]]. *)
Theorem c05_nested_invocation : forall v attr h s body a tf tg ty ib v' rest_attrs,
  parse_fn_attr attr = Ok a ->
  analyze RSelfRef (apply_variant v (fa_opts a)) empty_tg (merged_sig h s) = Ok (tf, tg) ->
  expand_items v attr (InFn h s body) =
    Ok [IFn (h_attrs h) (h_vis h) (merged_sig h s) body;
        ITrait (gen_trait_def (apply_variant v (fa_opts a)) TPlain (MConcrete ty) (h_attrs h) None (fa_vis a) (fa_trait a) tg false pempty [tf] MSingleFn);
        IImpl ib] ->
  let tr := gen_trait_def (apply_variant v (fa_opts a)) TPlain (MConcrete ty) (h_attrs h) None (fa_vis a) (fa_trait a) tg false pempty [tf] MSingleFn in
  In entrait_for_trait_attr (t_attrs tr) /\
  exists items', expand_items v' PC05b.nested_attr_toks (PC05b.nested_input tr rest_attrs) = Ok items' /\
                 good (view_C06 (mkCtx v' PC05b.nested_attr_toks (PC05b.nested_input tr rest_attrs)) items').
Proof. exact PC05b.nested_invocation_expands. Qed.
Print Assumptions c05_nested_invocation.

Example c05_nonvacuous :
  forallb (nonvacuous view_C05g) [ex_fn; ex_fn_conc; ex_fn_nodeps; ex_fn_export] = true.
Proof. vm_compute. reflexivity. Qed.
Print Assumptions c05_nonvacuous.
