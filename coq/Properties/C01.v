(** * C01 — calling a generated trait method is calling the original function (expansion-level half) *)
From Coq Require Import List String Ascii Bool.
From Entrait Require Import Tok Syn Opts Split FnParams Convert Codegen Expand Proj Examples.
From Entrait.Proofs Require Import Base Shapes NonVac PFnParams PC16 PC01 Sem PSem01.
Import ListNotations.
Local Open Scope list_scope.

(** Every function the macro analyses keeps its name and asyncness, gets a non-empty parameter list of
    receivers / plain identifiers, and is classified [no_deps] exactly when the option says so. *)
Theorem c01_analyzed : forall k o tg s tf tg',
  analyze k o tg s = Ok (tf, tg') ->
  s_name (tf_sig tf) = s_name s /\ tf_async tf = s_async s /\
  (tf_deps tf = DNoDeps <-> no_deps_value o = true) /\
  p_items (s_inputs (tf_sig tf)) <> [] /\
  forallb is_plain_ident_arg (p_items (s_inputs (tf_sig tf))) = true.
Proof. exact analyze_facts. Qed.
Print Assumptions c01_analyzed.

(** The body of the delegating method of the k-th function is exactly
    [{ [Self::] f_k ( [self ,] a_1 , ... , a_n ) [. await] }] with [f_k] the k-th source function's own name,
    [a_j] the j-th typed parameter identifier of the emitted method (in order), [self ,] present iff the
    function has a dependency parameter, [. await] iff the source function is async — for any number of
    functions and parameters. *)
Theorem c01_bodies : forall ind im k o sigs fns argss,
  Forall2 (fn_ok k o) sigs fns ->
  Forall2 (fun tf args => call_args (p_items (s_inputs (tf_sig tf))) = Ok args) fns argss ->
  bodies_ok (match im with MImplBlock => true | _ => false end)
            (match ind with INone => negb (no_deps_value o) | _ => false end)
            (map (fun s => (s_name s, s_async s)) sigs)
            (map (fun '(tf, args) => (tf_attrs tf, tf_sig tf, deleg_body ind im tf args)) (combine fns argss)) = true.
Proof. exact bodies_ok_all. Qed.
Print Assumptions c01_bodies.

(** What calling a generated method does (mini-semantics of Proofs/Sem.v: parameters bound positionally to
    the caller's arguments; a parameter named like the callee would capture it, a duplicated name would be
    rejected): for every function the macro analyses — standalone, module function, impl-block function —
    evaluating the delegating body performs exactly ONE call, of the function with the source function's own
    name ([Self::name] in impl blocks), passing the receiver first (when the function has a dependency
    parameter and the impl is the direct one) and then the caller's arguments 0..n-1 in declared order; the
    result is awaited iff the source function is async. Uses C16 (names distinct, callee not shadowed). *)
Theorem c01_call_semantics : forall ind im k o s tf args,
  fn_ok k o s tf ->
  call_args (p_items (s_inputs (tf_sig tf))) = Ok args ->
  ~ In "self"%string (typed_names (tf_sig tf)) ->
  eval_fn_call (typed_names (tf_sig tf)) (deleg_body ind im tf args) =
  Some (mkEvent
          (match im with MImplBlock => CSelfFn (s_name s) | _ => CFn (s_name s) end)
          ((if match ind with INone => negb (no_deps_value o) | _ => false end then [VSelf] else []) ++
           map VArg (seq 0 (List.length (typed_names (tf_sig tf)))))
          (s_async s)).
Proof. exact delegating_call_semantics. Qed.
Print Assumptions c01_call_semantics.

(** The predicate the checker evaluates on the implementation's output holds of every model expansion. *)
Theorem c01_view_sound : forall v attr i items,
  expand_items v attr i = Ok items -> good (view_C01 (mkCtx v attr i) items).
Proof. exact c01_view. Qed.
Print Assumptions c01_view_sound.

Example c01_nonvacuous :
  forallb (nonvacuous view_C01) [ex_fn; ex_fn_conc; ex_fn_nodeps; ex_fn_export; ex_mod] = true.
Proof. vm_compute. reflexivity. Qed.
Print Assumptions c01_nonvacuous.
