(** * C19 — every bound the macro adds on its own is a lifetime, an absolute path, or a user-supplied trait name *)
From Coq Require Import List String Ascii Bool.
From Entrait Require Import Tok Syn Opts Split Convert Codegen Expand Proj Proj2 Proj3 ProjSide Examples.
From Entrait.Proofs Require Import Base Shapes NonVac PC05 PC19.
Import ListNotations.
Local Open Scope string_scope.
Local Open Scope list_scope.

(** the macro's own impl parameter is [EntraitT: b1 + .. + bn] where every [bi] is a lifetime or starts with [::] *)
Theorem c19_entrait_t_param : forall bv,
  print_gparam (impl_t_param bv) = [TId "EntraitT"; pc ":"] ++ join [pc "+"] (gp_bounds (impl_t_param bv)) /\
  Forall abs_or_life (gp_bounds (impl_t_param bv)).
Proof. exact impl_t_param_bounds. Qed.
Print Assumptions c19_entrait_t_param.

(** where that parameter is: first in the generated impl block of a fn ... *)
Theorem c19_fn : forall v attr h s body items,
  expand_items v attr (InFn h s body) = Ok items ->
  exists f tr im, items = [f; ITrait tr; IImpl im] /\
    ((exists bv rest, p_items (g_params (i_gen im)) = impl_t_param bv :: rest) \/
     p_items (g_params (i_gen im)) = lifted_params (s_gen s)).
Proof. exact c19_fn_params. Qed.
Print Assumptions c19_fn.

(** ... of a module ... *)
Theorem c19_mod : forall v attr h name body sigs sf items,
  expand_items v attr (InMod h name body sigs sf) = Ok items ->
  exists attrs vs user tr im uv tree bv rest,
    items = [IMod attrs vs name (user ++ [ITrait tr; IImpl im]); IUse [] uv tree] /\
    p_items (g_params (i_gen im)) = impl_t_param bv :: rest.
Proof. exact c19_mod_params. Qed.
Print Assumptions c19_mod.

(** ... of an impl block ... *)
Theorem c19_impl : forall v attr h tp st body sigs sf items,
  expand_items v attr (InImpl h tp st body sigs sf) = Ok items ->
  exists inh im bv rest, items = [IImpl inh; IImpl im] /\
    p_items (g_params (i_gen im)) = impl_t_param bv :: rest.
Proof. exact c19_impl_params. Qed.
Print Assumptions c19_impl.

(** ... and of a trait, where the first where predicate is the macro's [EntraitT: ...] *)
Theorem c19_trait : forall v attr h t items,
  expand_items v attr (InTrait h t) = Ok items ->
  exists a0 tr ds im rest wrest,
    parse_trait_attr attr = Ok a0 /\
    parts (InTrait h t) items = Some (GTrait tr ds im) /\
    filter nonlife (p_items (g_params (i_gen im))) = impl_t_param false :: rest /\
    g_where (i_gen im) =
      Some (p_of_list (mk_pred (impl_t_bounds (eff_trait_attr v a0) (trait_contains_async (t_items t)) (t_name t) (trait_tg t)) :: wrest)).
Proof. exact c19_trait_params. Qed.
Print Assumptions c19_trait.

(** that predicate is [EntraitT: b1 + .. + bn], every [bi] a lifetime, an absolute path, or starting with the
    entraited trait's name / the delegation target's name / the [delegate_by] trait's name *)
Theorem c19_trait_bounds : forall a ca name tg,
  impl_t_bounds a ca name tg = [TId "EntraitT"; pc ":"] ++ join [pc "+"] (trait_bound_list a ca name tg) /\
  Forall (bound_ok_prop (c19_users a name)) (trait_bound_list a ca name tg).
Proof. exact impl_t_bounds_list. Qed.
Print Assumptions c19_trait_bounds.

(** the predicate the checker evaluates holds of every model expansion, except for a function with a concrete
    dependency whose own first non-lifetime parameter is a type parameter called [EntraitT] with a relative bound *)
Theorem c19_view_conditional : forall v attr i items,
  expand_items v attr i = Ok items -> c19_clash i = false -> good (view_C19 (mkCtx v attr i) items).
Proof. exact c19_view_partial. Qed.
Print Assumptions c19_view_conditional.

(** the guarded predicate the checker runs ([view_C19g c items := if c19_clash (x_input c) then na else view_C19 c items])
    holds of every model expansion, for all inputs *)
Theorem c19_view_sound : forall v attr i items,
  expand_items v attr i = Ok items -> good (view_C19g (mkCtx v attr i) items).
Proof. exact c19_view. Qed.
Print Assumptions c19_view_sound.

Theorem c19_no_clash : forall h s body,
  forallb (fun p => negb (is_tparam "EntraitT" p)) (p_items (g_params (s_gen s))) = true ->
  c19_clash (InFn h s body) = false.
Proof. exact no_entrait_t_no_clash19. Qed.
Print Assumptions c19_no_clash.

(** the unguarded predicate is refuted by
    [#[entrait(Foo)] fn foo<EntraitT: Bar>(deps: &App, x: EntraitT) {}] (the user's parameter is taken for the macro's) *)
Theorem c19_view_unrestricted_refuted :
  exists v attr i items, expand_items v attr i = Ok items /\ ~ good (view_C19 (mkCtx v attr i) items).
Proof. exact c19_view_refuted. Qed.
Print Assumptions c19_view_unrestricted_refuted.

Example c19_nonvacuous :
  forallb (nonvacuous view_C19g)
    [ex_fn; ex_fn_nodeps; ex_fn_export; ex_mod; ex_trait; ex_trait_self; ex_trait_deleg; ex_trait_dyn; ex_impl; ex_impl_dyn] = true.
Proof. vm_compute. reflexivity. Qed.
Print Assumptions c19_nonvacuous.
