(** * C12 — async functions / methods: trait methods return [impl Future<Output = R> [+ Send]] unless an
      [async_trait] attribute is present; implementations stay [async fn]; [async_trait] is re-applied *)
From Coq Require Import List String Ascii Bool.
From Entrait Require Import Tok Syn Opts Split FnParams Convert Codegen Expand Proj Proj2 Examples.
From Entrait.Proofs Require Import Base Shapes NonVac PC12.
Import ListNotations.
Local Open Scope list_scope.

(** The trait method made from an async signature when no [async_trait] sub-attribute is given: a plain
    (non-async) [fn] with the same name, generics and parameters returning the future type. *)
Theorem c12_trait_sig_async : forall s subs o,
  s_async s = true -> contains_async_trait subs = false ->
  make_trait_fn_sig s subs o =
  mkSig (s_const s) false (s_unsafe s) (s_abi s) (s_name s) (s_gen s) (s_inputs s) (s_variadic s)
        (Some (future_output o (s_output s))).
Proof. exact make_trait_fn_sig_async. Qed.
Print Assumptions c12_trait_sig_async.

(** Not async, or an [async_trait] attribute present: the signature is left exactly as it is. *)
Theorem c12_trait_sig_same : forall s subs o,
  s_async s = false \/ contains_async_trait subs = true -> make_trait_fn_sig s subs o = s.
Proof. exact make_trait_fn_sig_same. Qed.
Print Assumptions c12_trait_sig_same.

(** The future type is [impl ::core::future::Future<Output = R>] ([()] for no return type), followed by
    [+ ::core::marker::Send] exactly when [future_send]. *)
Theorem c12_future_type : forall o ret,
  future_output o ret =
  [TId "impl"] ++ abs_path ["core"; "future"; "Future"]%string ++ [pc "<"; TId "Output"; pc "="] ++
  (match ret with Some t => t | None => [TG Paren []] end) ++ [pc ">"] ++
  (if future_send o then [pc "+"] ++ abs_path ["core"; "marker"; "Send"]%string else []).
Proof. exact future_output_shape. Qed.
Print Assumptions c12_future_type.

Theorem c12_future_send_iff : forall o ret,
  (exists pre, future_output o ret = pre ++ [pc "+"] ++ abs_path ["core"; "marker"; "Send"]%string) <-> future_send o = true.
Proof. exact future_output_send_iff. Qed.
Print Assumptions c12_future_send_iff.

(** [+ Send] is dropped only by the [?Send] option. *)
Theorem c12_maybe_send : forall o, future_send o = false <-> o_future_send o = Some false.
Proof. exact future_send_false_iff. Qed.
Print Assumptions c12_maybe_send.

(** For every analysed function (fn, module fn, impl-block fn): the signature used for the implementation
    method keeps asyncness and return type; the trait method is as described above. *)
Theorem c12_analyzed : forall k o tg s tf tg' subs,
  analyze k o tg s = Ok (tf, tg') ->
  let t := make_trait_fn_sig (tf_sig tf) subs o in
  (s_async s = true -> contains_async_trait subs = false ->
     s_async t = false /\ s_output t = Some (future_output o (s_output s))) /\
  (s_async s = false \/ contains_async_trait subs = true -> t = tf_sig tf) /\
  s_async (tf_sig tf) = s_async s /\ s_output (tf_sig tf) = s_output s.
Proof. exact analyze_trait_method. Qed.
Print Assumptions c12_analyzed.

(** For any number of functions, positionally: trait methods and implementation methods. *)
Theorem c12_all_fns : forall k o subs sigs fns,
  Forall2 (fn_ok k o) sigs fns ->
  c12_all (contains_async_trait subs) (future_send o) sigs
          (map (fun tf => make_trait_fn_sig (tf_sig tf) subs o) fns) (map tf_sig fns) = true /\
  c12_all true true sigs (map tf_sig fns) (map tf_sig fns) = true.
Proof. exact c12_all_analyze. Qed.
Print Assumptions c12_all_fns.

(** The [async_trait] attributes of a generated trait are exactly the user's (the macro's own attributes are
    never [async_trait]). *)
Theorem c12_trait_async_attrs : forall o ti mode subs lit v name tg colon supers fns im,
  filter is_async_trait (t_attrs (gen_trait_def o ti mode subs lit v name tg colon supers fns im))
  = filter is_async_trait (match lit with Some l => l | None => subs end).
Proof. exact gen_trait_def_async_attrs. Qed.
Print Assumptions c12_trait_async_attrs.

(** fn: the whole picture. *)
Theorem c12_fn : forall v attr h s body items,
  expand_items v attr (InFn h s body) = Ok items ->
  exists a f tr im tf,
    parse_fn_attr attr = Ok a /\ items = [f; ITrait tr; IImpl im] /\
    trait_sigs tr = [([], make_trait_fn_sig (tf_sig tf) (h_attrs h) (apply_variant v (fa_opts a)))] /\
    map (fun '(_, s, _) => s) (impl_fns im) = [tf_sig tf] /\
    c12_rel (merged_sig h s) (tf_sig tf) /\
    filter is_async_trait (t_attrs tr) = filter is_async_trait (h_attrs h) /\
    i_attrs im = filter is_async_trait (h_attrs h).
Proof. exact c12_fn_explicit. Qed.
Print Assumptions c12_fn.

(** trait: the re-emitted trait's methods are the source methods through [make_trait_fn_sig]; the delegating
    impl has the source signatures; [async_trait] is on the trait, the delegation-target trait and the impl. *)
Theorem c12_trait : forall v attr h t items,
  expand_items v attr (InTrait h t) = Ok items ->
  exists a0 tr ds im,
    parse_trait_attr attr = Ok a0 /\ items = [ITrait tr] ++ map ITrait ds ++ [IImpl im] /\
    trait_sigs tr = map (fun '(x, s) => (x, make_trait_fn_sig s (h_attrs h) (apply_variant v (ta_opts a0)))) (trait_sigs t) /\
    map (fun '(x, s, _) => (x, s)) (impl_fns im) = trait_sigs t /\
    filter is_async_trait (t_attrs tr) = filter is_async_trait (h_attrs h) /\
    i_attrs im = filter is_async_trait (h_attrs h) /\
    match ta_impl_trait a0 with
    | None => ds = []
    | Some n => exists td, hd_error ds = Some td /\ t_name td = n /\ t_attrs td = filter is_async_trait (h_attrs h)
    end.
Proof. exact c12_trait_explicit. Qed.
Print Assumptions c12_trait.

(** trait with a delegation target ([#[entrait(TargetTrait, delegate_by = ..)]]): the first trait generated after
    the re-emitted one is the target trait; its methods are the source methods with only the receiver
    parameter rewritten ([recv] keeps asyncness and return type), passed through [make_trait_fn_sig] with the
    user's [async_trait] attributes and the same [future_send] — so an async method returns
    [impl Future<Output = R> [+ Send]] there exactly as in the re-emitted trait ([?Send] is honoured). *)
Theorem c12_target_trait : forall v attr h t items,
  expand_items v attr (InTrait h t) = Ok items ->
  exists a0 tr ds im,
    parse_trait_attr attr = Ok a0 /\ items = [ITrait tr] ++ map ITrait ds ++ [IImpl im] /\
    forall n, ta_impl_trait a0 = Some n ->
      exists td recv, hd_error ds = Some td /\ t_name td = n /\
        (recv = static_impl_receiver \/ recv = dynamic_impl_receiver) /\
        (forall s, s_async (recv s) = s_async s /\ s_output (recv s) = s_output s) /\
        trait_sigs td = map (fun '(x, s) => (x, make_trait_fn_sig (recv s) (filter is_async_trait (h_attrs h))
                                                                  (no_mock_opts (apply_variant v (ta_opts a0)))))
                            (trait_sigs t) /\
        future_send (no_mock_opts (apply_variant v (ta_opts a0))) = future_send (apply_variant v (ta_opts a0)) /\
        contains_async_trait (filter is_async_trait (h_attrs h)) = contains_async_trait (h_attrs h) /\
        c12_trait_all (contains_async_trait (h_attrs h)) (future_send (apply_variant v (ta_opts a0)))
                      (map snd (trait_sigs t)) (map snd (trait_sigs td)) = true.
Proof. exact c12_target_trait_explicit. Qed.
Print Assumptions c12_target_trait.

(** The predicate the checker evaluates on the implementation's output holds of every model expansion. *)
Theorem c12_view_sound : forall v attr i items,
  expand_items v attr i = Ok items -> good (view_C12 (mkCtx v attr i) items).
Proof. exact c12_view. Qed.
Print Assumptions c12_view_sound.

Example c12_nonvacuous :
  forallb (nonvacuous view_C12) [ex_fn; ex_mod; ex_trait; ex_impl_dyn] = true.
Proof. vm_compute. reflexivity. Qed.
Print Assumptions c12_nonvacuous.
