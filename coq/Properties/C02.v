(** * C02 — append-only: the annotated fn / mod / impl items are emitted unchanged *)
From Coq Require Import List String Ascii Bool.
From Entrait Require Import Tok Syn Decode Opts Split FnParams Convert Codegen Expand Proj Proj2 Examples.
From Entrait.Proofs Require Import Base Shapes NonVac PSplit PC02.
Import ListNotations.
Local Open Scope list_scope.

(** The token-level splitter of module and impl-block bodies is lossless: whenever it accepts a body
    (any token sequence: items syn could not parse, macro bodies, nested groups ...) and syn's print of
    every function signature equals its source tokens ([faithful = true]), the chunks printed back in
    order are exactly the body. Nothing is dropped, duplicated or reordered. *)
Theorem c02_split_lossless : forall in_mod sigs body items,
  split_body in_mod sigs body = Ok (items, true) -> flat_map print_body_item items = body.
Proof. exact split_body_lossless. Qed.
Print Assumptions c02_split_lossless.

(** fn: the expansion is the source tokens (attributes, visibility, qualifiers incl. a leading [unsafe],
    signature, body — the body being an uninterpreted token list) followed by what the macro generates. *)
Theorem c02_fn : forall v attr h s body items,
  fn_head_ok h s ->
  expand_items v attr (InFn h s body) = Ok items ->
  exists gen, print_items items = (print_head h ++ print_sig s ++ body) ++ gen.
Proof. exact c02_fn_prefix. Qed.
Print Assumptions c02_fn.

(** mod: [attrs vis mod name { original body ++ generated } generated-after]. *)
Theorem c02_mod : forall v attr h name body sigs sf items,
  expand_items v attr (InMod h name body sigs sf) = Ok items ->
  (exists bitems, split_body true sigs body = Ok (bitems, true)) ->
  exists gen_inside after,
    print_items items = print_head h ++ [TId "mod"; TId name; TG Brace (body ++ gen_inside)] ++ after.
Proof. exact c02_mod_shape. Qed.
Print Assumptions c02_mod.

(** impl block: an inherent [impl SelfTy { original body }] (attributes other than async_trait and
    [unsafe] kept) followed by the generated trait impl. *)
Theorem c02_impl : forall v attr h tp st body sigs sf items,
  expand_items v attr (InImpl h tp st body sigs sf) = Ok items ->
  (exists bitems, split_body false sigs body = Ok (bitems, true)) ->
  exists gen,
    print_items items =
    (print_attrs (filter (fun a => negb (is_async_trait a)) (h_attrs h)) ++ kw (h_unsafe h) "unsafe" ++
     [TId "impl"] ++ st ++ [TG Brace body]) ++ gen.
Proof. exact c02_impl_shape. Qed.
Print Assumptions c02_impl.

(** The predicate the checker evaluates on (recorded input tokens, emitted tokens) holds of every model
    expansion whose input the model's printer reproduces. *)
Theorem c02_view_sound : forall v attr i ts items,
  print_input i = Some ts ->
  expand_items v attr i = Ok items ->
  match i with
  | InFn h s _ => fn_head_ok h s
  | InMod _ _ body sigs _ => exists bitems, split_body true sigs body = Ok (bitems, true)
  | InImpl _ _ _ body sigs _ => exists bitems, split_body false sigs body = Ok (bitems, true)
  | _ => True
  end ->
  good (view_C02 (mkCtx v attr i) ts (print_items items)).
Proof. exact c02_view. Qed.
Print Assumptions c02_view_sound.

(** non-vacuity on recorded invocations: the hypotheses hold and the view applies *)
Definition c02_nonvac (c : option case) : bool :=
  match c with
  | Some c =>
      match model_items c, real_tokens c, print_input (c_input c) with
      | Ok items, Some real, Some ts =>
          toks_eqb (print_items items) real && toks_eqb ts (c_input_toks c) &&
          v_app (view_C02 (mkCtx (case_variant c) (c_attr c) (c_input c)) ts real) &&
          v_holds (view_C02 (mkCtx (case_variant c) (c_attr c) (c_input c)) ts real) &&
          match c_input c with
          | InMod _ _ body sigs _ => match split_body true sigs body with Ok (_, true) => true | _ => false end
          | InImpl _ _ _ body sigs _ => match split_body false sigs body with Ok (_, true) => true | _ => false end
          | _ => true
          end
      | _, _, _ => false
      end
  | None => false
  end.

Example c02_nonvacuous : forallb c02_nonvac [ex_fn; ex_fn_export; ex_mod; ex_impl; ex_impl_dyn] = true.
Proof. vm_compute. reflexivity. Qed.
Print Assumptions c02_nonvacuous.
