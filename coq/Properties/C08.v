(** * C08 — module mode: the trait's methods are exactly the module's non-private functions *)
From Coq Require Import List String Ascii Bool.
From Entrait Require Import Tok Syn Opts Split FnParams Convert Codegen Expand Proj Proj2 Proj3 ProjSide Examples.
From Entrait.Proofs Require Import Base Shapes NonVac PSplit PC08 PC08b PC13 Vis PC08c.
Import ListNotations.
Local Open Scope list_scope.

(** The generated trait and the generated impl have one method per chunk the splitter classified as a
    visible function with a body, same names, same order, and nothing else. *)
Theorem c08_methods : forall v attr h name body sigs sf items,
  expand_items v attr (InMod h name body sigs sf) = Ok items ->
  exists bitems fl user tr im uv tree,
    split_body true sigs body = Ok (bitems, fl) /\
    parts (InMod h name body sigs sf) items = Some (GMod (h_attrs h) (h_vis h) name user tr im uv tree) /\
    map (fun '(_, s) => s_name s) (trait_sigs tr) = split_fn_names bitems /\
    map (fun '(_, s, _) => s_name s) (impl_fns im) = split_fn_names bitems /\
    only_trait_fns tr = true /\ only_impl_fns im = true.
Proof. exact c08_methods_eq. Qed.
Print Assumptions c08_methods.

(** The chunks are consecutive top-level segments of the body (so a [fn] nested in a group — an impl,
    a submodule, an extern block, a macro body — is never a chunk of its own). *)
Theorem c08_chunks_are_top_level_segments : forall sigs body items,
  split_body true sigs body = Ok (items, true) -> flat_map print_body_item items = body.
Proof. exact (split_body_lossless true). Qed.
Print Assumptions c08_chunks_are_top_level_segments.

(** A chunk without visibility qualifier is not a method. *)
Theorem c08_private_excluded : forall sigs pos ts attrs r0 r1 it f rest,
  parse_outer ts = Ok (attrs, r0) -> parse_vis r0 = ([], r1) ->
  parse_body_item true sigs pos ts = Ok (it, f, rest) ->
  exists tokens, it = BUnknown attrs [] tokens.
Proof. exact private_chunk_is_not_fn. Qed.
Print Assumptions c08_private_excluded.

(** A chunk that does not start (after attributes and visibility) with [const? async? unsafe? extern-abi? fn]
    is not a method. *)
Theorem c08_non_fn_excluded : forall in_mod sigs pos ts attrs r0 v r1 it f rest,
  parse_outer ts = Ok (attrs, r0) -> parse_vis r0 = (v, r1) -> peek_fn r1 = false ->
  parse_body_item in_mod sigs pos ts = Ok (it, f, rest) ->
  exists tokens, it = BUnknown attrs v tokens.
Proof. exact non_fn_chunk_is_not_fn. Qed.
Print Assumptions c08_non_fn_excluded.

(** A body-less declaration (signature directly followed by [;]) is not a method. *)
Theorem c08_bodiless_excluded : forall in_mod sigs pos ts attrs r0 v r1 sa r3 it f rest,
  parse_outer ts = Ok (attrs, r0) -> parse_vis r0 = (v, r1) ->
  find_sig (pos + (List.length ts - List.length r1)) sigs = Some sa ->
  skipn (sa_len sa) r1 = pc ";" :: r3 ->
  parse_body_item in_mod sigs pos ts = Ok (it, f, rest) ->
  exists tokens, it = BUnknown attrs v tokens.
Proof. exact bodiless_chunk_is_not_fn. Qed.
Print Assumptions c08_bodiless_excluded.

(** Conversely every method chunk has a visibility qualifier and the fn keyword sequence. *)
Theorem c08_method_is_visible_fn : forall sigs pos ts attrs v s body f rest,
  parse_body_item true sigs pos ts = Ok (BFn attrs v s body, f, rest) ->
  exists r0 r1, parse_outer ts = Ok (attrs, r0) /\ parse_vis r0 = (v, r1) /\ v <> [] /\ peek_fn r1 = true.
Proof. exact fn_chunk_is_visible_fn. Qed.
Print Assumptions c08_method_is_visible_fn.

(** Grammar: a well-delimited non-function item — outer attributes, optional visibility, tokens without a
    top-level brace group or [;], one terminator, directly following [;]s — is split off as exactly one
    opaque chunk, whatever follows it; a visible function with a body (given syn's signature parse at its
    offset) is split off as exactly one function chunk; and pieces compose: if every piece is split off as one
    item in front of the pieces after it, the body splits into exactly these items. *)
Theorem c08_non_fn_item : forall (in_mod : bool) sigs pos w (rest : toks),
  witem_ok w -> starts_semi rest = false ->
  ((if in_mod then match wi_vis w with [] => false | _ => true end else true) && peek_fn (wi_core w ++ [wi_term w] ++ wi_semis w ++ rest)) = false ->
  parse_body_item in_mod sigs pos (print_witem w ++ rest) =
  Ok (BUnknown (wi_attrs w) (wi_vis w) (wi_core w ++ [wi_term w] ++ wi_semis w), true, rest).
Proof. exact non_fn_item_is_one_chunk. Qed.
Print Assumptions c08_non_fn_item.

Theorem c08_fn_item : forall (in_mod : bool) sigs pos (attrs : list attr) (v : vis) (sigtoks : toks) sg (body : tt) (semis rest : toks),
  starts_hash (v ++ sigtoks) = false ->
  vis_shape_ok v (sigtoks ++ [body] ++ semis ++ rest) ->
  (if in_mod then match v with [] => false | _ => true end else true) = true ->
  peek_fn (sigtoks ++ [body] ++ semis ++ rest) = true ->
  find_sig (pos + (List.length (print_attrs attrs) + List.length v)) sigs = Some (mkSigAt (pos + (List.length (print_attrs attrs) + List.length v)) (List.length sigtoks) sg) ->
  print_sig sg = sigtoks ->
  is_brace body = true -> forallb is_semi semis = true -> starts_semi rest = false ->
  parse_body_item in_mod sigs pos (print_attrs attrs ++ v ++ sigtoks ++ [body] ++ semis ++ rest) =
  Ok (BFn attrs v sg ([body] ++ semis), true, rest).
Proof. exact fn_item_is_one_chunk. Qed.
Print Assumptions c08_fn_item.

Theorem c08_items_compose : forall in_mod sigs (pieces : list (toks * body_item)) fuel pos,
  (forall pre ts it post, pieces = pre ++ (ts, it) :: post ->
     ts <> [] /\
     parse_body_item in_mod sigs (pos + List.length (flat_map fst pre)) (ts ++ flat_map fst post) = Ok (it, true, flat_map fst post)) ->
  List.length (flat_map fst pieces) < fuel ->
  parse_body in_mod sigs fuel pos (flat_map fst pieces) = Ok (map snd pieces, true).
Proof. exact chunks_compose. Qed.
Print Assumptions c08_items_compose.

(** "The trait is importable from the module's parent under the requested name and visibility, as if it had been
    declared next to the module": the trait [tr] sits inside the module with visibility [module_vis] of the requested
    one, and is re-exported beside the module by [<requested vis> use module::Trait;] ... *)
Theorem c08_importable : forall v attr h name body sigs sf items,
  expand_items v attr (InMod h name body sigs sf) = Ok items ->
  exists a user tr im,
    parse_fn_attr attr = Ok a /\
    items = [IMod (h_attrs h) (h_vis h) name (user ++ [ITrait tr; IImpl im]);
             IUse [] (fa_vis a) ([TId name] ++ path_sep ++ [TId (fa_trait a)])] /\
    t_name tr = fa_trait a /\
    t_vis tr = module_vis (fa_vis a).
Proof. exact c13_mod_vis. Qed.
Print Assumptions c08_importable.

(** ... and [module_vis v], read inside the module, denotes the scope that [v] denotes next to the module
    ([Vis.vis_scope]), whatever the module is called and wherever it stands. *)
Theorem c08_as_if_declared_next_to_the_module : forall site m v s,
  vis_scope site v = Some s -> vis_scope (m :: site) (module_vis v) = Some s.
Proof. exact module_vis_scope. Qed.
Print Assumptions c08_as_if_declared_next_to_the_module.

(** The predicate the checker evaluates (method list = the list of directly declared visible functions
    found by syn's own item parser, the oracle [sf]; and the trait's visibility, the re-export's visibility and
    path as above) holds of every model expansion for which that oracle agrees with the splitter; the agreement
    itself is what the per-run correspondence measures. *)
Theorem c08_view_sound : forall v attr h name body sigs sf items bitems fl,
  expand_items v attr (InMod h name body sigs sf) = Ok items ->
  split_body true sigs body = Ok (bitems, fl) ->
  (forall l, sf = Some l -> l = split_fn_names bitems) ->
  good (view_C08g (mkCtx v attr (InMod h name body sigs sf)) items).
Proof. exact c08g_view. Qed.
Print Assumptions c08_view_sound.

Example c08_nonvacuous : nonvacuous view_C08g ex_mod = true.
Proof. vm_compute. reflexivity. Qed.
Print Assumptions c08_nonvacuous.
