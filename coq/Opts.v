(** * Opts: opt.rs, the three attribute parsers and the variant fallbacks, at token level *)
From Coq Require Import List String Ascii Bool Arith.
From Entrait Require Import Tok Syn.
Import ListNotations.
Local Open Scope string_scope.
Local Open Scope list_scope.

(** ** Results *)
Inductive err :=
| EMsg (msg : string)      (* entrait's own [syn::Error::new(span, msg)] *)
| ESyn.                    (* an error raised inside syn's parsers; message not modelled *)

Inductive result (A : Type) :=
| Ok (a : A)
| Err (e : err)
| Panic (site : string)
| OutOfDomain (why : string).
Arguments Ok {A}. Arguments Err {A}. Arguments Panic {A}. Arguments OutOfDomain {A}.

Definition rbind {A B} (x : result A) (f : A -> result B) : result B :=
  match x with
  | Ok a => f a
  | Err e => Err e
  | Panic s => Panic s
  | OutOfDomain w => OutOfDomain w
  end.
Notation "'let*' x := e 'in' k" := (rbind e (fun x => k)) (at level 200, x pattern, e at level 100, k at level 200).

(** ** syn's identifier parser: keywords are not identifiers *)
Definition keywords : list string :=
  ["_"; "abstract"; "as"; "async"; "await"; "become"; "box"; "break"; "const"; "continue"; "crate";
   "do"; "dyn"; "else"; "enum"; "extern"; "false"; "final"; "fn"; "for"; "if"; "impl"; "in"; "let";
   "loop"; "macro"; "match"; "mod"; "move"; "mut"; "override"; "priv"; "pub"; "ref"; "return";
   "Self"; "self"; "static"; "struct"; "super"; "trait"; "true"; "try"; "type"; "typeof"; "unsafe";
   "unsized"; "use"; "virtual"; "where"; "while"; "yield"].

Definition accept_as_ident (s : string) : bool := negb (str_mem s keywords).

(** [input.parse::<syn::Ident>()] *)
Definition parse_ident (ts : toks) : result (string * toks) :=
  match ts with
  | TId s :: rest => if accept_as_ident s then Ok (s, rest) else Err ESyn
  | _ => Err ESyn
  end.

(** [input.parse::<syn::Visibility>()] (without None-delimited groups) *)
Definition restricted_head (inner : toks) : bool :=
  match inner with
  | [TId k] => String.eqb k "crate" || String.eqb k "self" || String.eqb k "super"
  | TId k :: _ => String.eqb k "in"
  | _ => false
  end.

Definition parse_vis (ts : toks) : vis * toks :=
  match ts with
  | TId p :: rest =>
      if String.eqb p "pub" then
        match rest with
        | TG Paren inner :: rest' =>
            if restricted_head inner then ([TId "pub"; TG Paren inner], rest') else ([TId "pub"], rest)
        | _ => ([TId "pub"], rest)
        end
      else ([], ts)
  | _ => ([], ts)
  end.

(** ** Options *)
Inductive ref_delegate := RAsRef | RBorrow.
Inductive delegate := BySelf | ByRef (r : ref_delegate) | ByTrait (name : string).

Inductive eopt :=
| ONoDeps (b : bool)
| ODebug (b : bool)
| ODelegateBy (d : delegate)
| OExport (b : bool)
| OMaybeSend (send : bool)
| OMockApi (name : string)
| OUnimock (b : bool)
| OMockall (b : bool).

Definition unknown_option (name : string) : err :=
  EMsg ("Unkonwn entrait option """ +++ name +++ """").

(** [parse_eq_bool]: optional [= true|false], default [true] *)
Definition parse_eq_bool (ts : toks) : result (bool * toks) :=
  match ts with
  | TP c :: rest =>
      if Ascii.eqb c "="%char then
        match rest with
        | TId v :: r => if String.eqb v "true" then Ok (true, r)
                        else if String.eqb v "false" then Ok (false, r) else Err ESyn
        | _ => Err ESyn
        end
      else Ok (true, ts)
  | _ => Ok (true, ts)
  end.

Definition parse_eq_delegate_by (ts : toks) : result (delegate * toks) :=
  match ts with
  | TP c :: rest =>
      if Ascii.eqb c "="%char then
        if match rest with TId x :: _ => String.eqb x "ref" | _ => false end
        then Ok (ByRef RAsRef, tl rest)
        else
          let* (name, rest') := parse_ident rest in
          (* "Self" is a keyword for syn's Ident parser, so that arm of the Rust match is dead *)
          if String.eqb name "Self" then Ok (BySelf, rest')
          else if String.eqb name "Borrow" then Ok (ByRef RBorrow, rest')
          else Ok (ByTrait name, rest')
      else Ok (BySelf, ts)
  | _ => Ok (BySelf, ts)
  end.

(** [impl Parse for EntraitOpt] *)
Definition starts_with_punct (c : ascii) (ts : toks) : bool :=
  match ts with TP x :: _ => Ascii.eqb x c | _ => false end.

Definition parse_opt (ts : toks) : result (eopt * toks) :=
  if starts_with_punct "?"%char ts then
      let* (name, rest') := parse_ident (tl ts) in
      if String.eqb name "Send" then Ok (OMaybeSend false, rest') else Err (unknown_option name)
  else
      let* (name, rest) := parse_ident ts in
      if String.eqb name "no_deps" then let* (b, r) := parse_eq_bool rest in Ok (ONoDeps b, r)
      else if String.eqb name "debug" then let* (b, r) := parse_eq_bool rest in Ok (ODebug b, r)
      else if String.eqb name "delegate_by" then let* (d, r) := parse_eq_delegate_by rest in Ok (ODelegateBy d, r)
      else if String.eqb name "export" then let* (b, r) := parse_eq_bool rest in Ok (OExport b, r)
      else if String.eqb name "mock_api" then
             if starts_with_punct "="%char rest
             then let* (n, r) := parse_ident (tl rest) in Ok (OMockApi n, r)
             else Err ESyn
      else if String.eqb name "unimock" then let* (b, r) := parse_eq_bool rest in Ok (OUnimock b, r)
      else if String.eqb name "mockall" then let* (b, r) := parse_eq_bool rest in Ok (OMockall b, r)
      else Err (unknown_option name).

Record opts := mkOpts {
  o_no_deps : option bool;
  o_debug : option bool;
  o_export : option bool;
  o_future_send : option bool;
  o_mock_api : option string;
  o_unimock : option bool;
  o_mockall : option bool
}.

Definition no_opts : opts := mkOpts None None None None None None None.

Definition dflt (o : option bool) (d : bool) : bool := match o with Some b => b | None => d end.
Definition no_deps_value (o : opts) := dflt (o_no_deps o) false.
Definition export_value (o : opts) := dflt (o_export o) false.
Definition future_send (o : opts) := dflt (o_future_send o) true.
Definition unimock_value (o : opts) := dflt (o_unimock o) false.
Definition mockall_value (o : opts) := dflt (o_mockall o) false.

Definition is_some {A} (x : option A) : bool := match x with Some _ => true | None => false end.

(** [Opts::mockable] *)
Definition mockable (o : opts) : bool :=
  (unimock_value o && is_some (o_mock_api o)) || mockall_value o.

Definition unsupported : err := EMsg "Unsupported option".

(** ** #[entrait(...)] on fn / mod: [EntraitFnAttr] *)
Record fn_attr := mkFnAttr { fa_vis : vis; fa_trait : string; fa_opts : opts }.

Definition set_fn_opt (o : opts) (e : eopt) : result opts :=
  match e with
  | ONoDeps b => Ok (mkOpts (Some b) (o_debug o) (o_export o) (o_future_send o) (o_mock_api o) (o_unimock o) (o_mockall o))
  | ODebug b => Ok (mkOpts (o_no_deps o) (Some b) (o_export o) (o_future_send o) (o_mock_api o) (o_unimock o) (o_mockall o))
  | OExport b => Ok (mkOpts (o_no_deps o) (o_debug o) (Some b) (o_future_send o) (o_mock_api o) (o_unimock o) (o_mockall o))
  | OMaybeSend b => Ok (mkOpts (o_no_deps o) (o_debug o) (o_export o) (Some b) (o_mock_api o) (o_unimock o) (o_mockall o))
  | OMockApi n => Ok (mkOpts (o_no_deps o) (o_debug o) (o_export o) (o_future_send o) (Some n) (o_unimock o) (o_mockall o))
  | OUnimock b => Ok (mkOpts (o_no_deps o) (o_debug o) (o_export o) (o_future_send o) (o_mock_api o) (Some b) (o_mockall o))
  | OMockall b => Ok (mkOpts (o_no_deps o) (o_debug o) (o_export o) (o_future_send o) (o_mock_api o) (o_unimock o) (Some b))
  | ODelegateBy _ => Err unsupported
  end.

(** [while input.peek(,) { , ; opt }]; whatever is left over is a syn "unexpected token" error.
    Recursion on fuel = number of tokens (every round consumes at least the comma). *)
Fixpoint fn_attr_loop (fuel : nat) (ts : toks) (o : opts) : result opts :=
  match ts with
  | [] => Ok o
  | _ =>
      if starts_with_punct ","%char ts then
        match fuel with
        | O => OutOfDomain "fuel"
        | S k =>
            let* (e, rest') := parse_opt (tl ts) in
            let* o' := set_fn_opt o e in
            fn_attr_loop k rest' o'
        end
      else Err ESyn
  end.

Definition parse_fn_attr (ts : toks) : result fn_attr :=
  let '(v, rest) := parse_vis ts in
  let* (name, rest') := parse_ident rest in
  let* o := fn_attr_loop (List.length rest') rest' no_opts in
  Ok (mkFnAttr v name o).

(** ** #[entrait(...)] on a trait: [EntraitTraitAttr] *)
Record trait_attr := mkTraitAttr {
  ta_impl_trait : option string;      (* delegation-target trait (its visibility is unused) *)
  ta_opts : opts;
  ta_delegate : option delegate
}.

Definition set_trait_opt (od : opts * option delegate) (e : eopt) : result (opts * option delegate) :=
  let '(o, d) := od in
  match e with
  | ODebug b => Ok (mkOpts (o_no_deps o) (Some b) (o_export o) (o_future_send o) (o_mock_api o) (o_unimock o) (o_mockall o), d)
  | OMockApi n => Ok (mkOpts (o_no_deps o) (o_debug o) (o_export o) (o_future_send o) (Some n) (o_unimock o) (o_mockall o), d)
  | OMaybeSend b => Ok (mkOpts (o_no_deps o) (o_debug o) (o_export o) (Some b) (o_mock_api o) (o_unimock o) (o_mockall o), d)
  | OUnimock b => Ok (mkOpts (o_no_deps o) (o_debug o) (o_export o) (o_future_send o) (o_mock_api o) (Some b) (o_mockall o), d)
  | OMockall b => Ok (mkOpts (o_no_deps o) (o_debug o) (o_export o) (o_future_send o) (o_mock_api o) (o_unimock o) (Some b), d)
  | ODelegateBy k => Ok (o, Some k)
  | ONoDeps _ | OExport _ => Err unsupported
  end.

(** [loop { opt; if peek(,) { , } else { break } }] *)
Fixpoint opt_loop {S} (set : S -> eopt -> result S) (fuel : nat) (ts : toks) (st : S) : result (S * toks) :=
  match fuel with
  | O => OutOfDomain "fuel"
  | S k =>
      let* (e, rest) := parse_opt ts in
      let* st' := set st e in
      if starts_with_punct ","%char rest then opt_loop set k (tl rest) st' else Ok (st', rest)
  end.

Definition is_ok {A} (r : result A) : bool := match r with Ok _ => true | _ => false end.

Definition parse_trait_attr (ts : toks) : result trait_attr :=
  let* (impl_trait, rest) :=
    match ts with
    | [] => Ok (None, ts)
    | _ =>
        if is_ok (parse_opt ts) then Ok (None, ts)
        else
          let '(_, r1) := parse_vis ts in
          let* (name, r2) := parse_ident r1 in
          if starts_with_punct ","%char r2 then Ok (Some name, tl r2) else Ok (Some name, r2)
    end in
  match rest with
  | [] => Ok (mkTraitAttr impl_trait no_opts None)
  | _ =>
      let* ((o, d), leftover) := opt_loop set_trait_opt (S (List.length rest)) rest (no_opts, None) in
      match leftover with
      | [] => Ok (mkTraitAttr impl_trait o d)
      | _ => Err ESyn
      end
  end.

(** ** #[entrait(ref|dyn ...)] on an impl block: [EntraitSimpleImplAttr] *)
Definition skip_kw (name : string) (ts : toks) : bool * toks :=
  match ts with
  | TId s :: rest => if String.eqb s name then (true, rest) else (false, ts)
  | _ => (false, ts)
  end.

Inductive impl_kind := KStatic | KDynRef.
Record impl_attr := mkImplAttr { ia_kind : impl_kind; ia_opts : opts }.

Definition set_impl_opt (o : opts) (e : eopt) : result opts :=
  match e with
  | ODebug b => Ok (mkOpts (o_no_deps o) (Some b) (o_export o) (o_future_send o) (o_mock_api o) (o_unimock o) (o_mockall o))
  | _ => Err unsupported
  end.

Definition parse_impl_attr (ts : toks) : result impl_attr :=
  let '(has_ref, r1) := skip_kw "ref" ts in
  let '(has_dyn, r2) := skip_kw "dyn" r1 in
  let kind := if has_dyn || has_ref then KDynRef else KStatic in
  match r2 with
  | [] => Ok (mkImplAttr kind no_opts)
  | _ =>
      let* (o, leftover) := opt_loop set_impl_opt (S (List.length r2)) r2 no_opts in
      match leftover with
      | [] => Ok (mkImplAttr kind o)
      | _ => Err ESyn
      end
  end.

(** ** Macro variants (entrait_macros/src/lib.rs:29-59): fallbacks never override explicit values *)
Inductive variant := VEntrait | VExport | VUnimock | VExportUnimock.

Definition get_or_insert (x : option bool) : option bool :=
  match x with Some b => Some b | None => Some true end.

Definition apply_variant (v : variant) (o : opts) : opts :=
  match v with
  | VEntrait => o
  | VExport => mkOpts (o_no_deps o) (o_debug o) (get_or_insert (o_export o)) (o_future_send o) (o_mock_api o) (o_unimock o) (o_mockall o)
  | VUnimock => mkOpts (o_no_deps o) (o_debug o) (o_export o) (o_future_send o) (o_mock_api o) (get_or_insert (o_unimock o)) (o_mockall o)
  | VExportUnimock => mkOpts (o_no_deps o) (o_debug o) (get_or_insert (o_export o)) (o_future_send o) (o_mock_api o) (get_or_insert (o_unimock o)) (o_mockall o)
  end.

Definition variant_of_string (s : string) : option variant :=
  if String.eqb s "entrait" then Some VEntrait
  else if String.eqb s "entrait_export" then Some VExport
  else if String.eqb s "entrait_unimock" then Some VUnimock
  else if String.eqb s "entrait_export_unimock" then Some VExportUnimock
  else None.

(** the facade (src/lib.rs:693-703): which macro the names [entrait] / [entrait_export] denote *)
Definition facade (unimock_feature : bool) (export_name : bool) : variant :=
  match unimock_feature, export_name with
  | false, false => VEntrait
  | false, true => VExport
  | true, false => VUnimock
  | true, true => VExportUnimock
  end.
