(** * Expand: the four pipelines (entrait_fn, entrait_trait, entrait_impl) and [invoke] *)
From Coq Require Import List String Ascii Bool Arith.
From Entrait Require Import Tok Syn Opts Split FnParams Convert Codegen.
Import ListNotations.
Local Open Scope string_scope.
Local Open Scope list_scope.

(** ** entrait_fn/mod.rs: single fn *)
Definition entrait_for_single_fn (a : fn_attr) (attrs : list attr) (v : vis) (s : sig) (body : toks)
  : result (list item) :=
  let o := fa_opts a in
  let* (tf, tg) := analyze RSelfRef o empty_tg s in
  let fns := [tf] in
  let* mode := detect_trait_dependency_mode MSingleFn fns in
  let trait_def := gen_trait_def o TPlain mode attrs None (fa_vis a) (fa_trait a) tg false pempty fns MSingleFn in
  let* impl_block := gen_impl_block o [TId (fa_trait a)] INone tg MSingleFn mode attrs fns in
  Ok [IFn attrs v s body; ITrait trait_def; IImpl impl_block].

(** [TraitFn::with_cfg_attrs_of], for the fns of a module / impl block *)
Fixpoint with_cfg_attrs (fns : list trait_fn) (src : list (list attr * vis * sig * toks)) : list trait_fn :=
  match fns, src with
  | tf :: fns', (attrs, _, _, _) :: src' =>
      mkTF (tf_deps tf) (filter is_cfg_attr attrs) (tf_sig tf) (tf_async tf) :: with_cfg_attrs fns' src'
  | _, _ => fns
  end.

(** ** entrait_fn/mod.rs: module *)
Definition item_of_body_item (b : body_item) : item :=
  match b with
  | BFn attrs v s body => IFn attrs v s body
  | BUnknown attrs v ts => IOther (print_attrs attrs ++ v ++ ts)
  end.

Definition entrait_for_mod (a : fn_attr) (attrs : list attr) (v : vis) (name : string) (items : list body_item)
  : result (list item) :=
  let o := fa_opts a in
  let sigs := map (fun '(_, _, s, _) => s) (body_fns items) in
  let* (fns0, tg) := analyze_all RSelfRef o empty_tg sigs in
  let fns := with_cfg_attrs fns0 (body_fns items) in
  let* mode := detect_trait_dependency_mode MModule fns in
  let trait_def := gen_trait_def o TPlain mode attrs None (fa_vis a) (fa_trait a) tg false pempty fns MModule in
  let* impl_block := gen_impl_block o [TId (fa_trait a)] INone tg MModule mode attrs fns in
  Ok [IMod attrs v name (map item_of_body_item items ++ [ITrait trait_def; IImpl impl_block]);
      IUse [] (fa_vis a) ([TId name] ++ path_sep ++ [TId (fa_trait a)])].

(** ** entrait_impl/mod.rs *)
Definition iitem_of_body_item (b : body_item) : iitem :=
  match b with
  | BFn attrs v s body => IIFn attrs v s body
  | BUnknown attrs v ts => IIOther (print_attrs attrs ++ v ++ ts)
  end.

(** [segment.arguments.is_none()] of the last segment of the implemented trait's path, on its tokens: a last segment
    without arguments ends the path with its identifier; [Fn(A) -> B] is the only form whose arguments can end with one *)
Fixpoint has_arrow (ts : toks) : bool :=
  match ts with
  | a :: ((b :: _) as rest) => (is_p "-" a && is_p ">" b) || has_arrow rest
  | _ => false
  end.

Definition ends_with_ident (ts : toks) : bool :=
  match rev ts with TId _ :: _ => true | _ => false end.

Definition path_has_arguments (trait_path : toks) : bool :=
  negb (ends_with_ident trait_path) || has_arrow trait_path.

Definition generic_args_msg : string := "Generic arguments on the implemented trait are not supported here".

Definition output_for_impl (a : impl_attr) (attrs : list attr) (unsafety : bool) (trait_path self_ty : toks)
           (items : list body_item) : result (list item) :=
  if path_has_arguments trait_path then Err (EMsg generic_args_msg) else
  let o := ia_opts a in
  let k := match ia_kind a with KStatic => RStaticImpl | KDynRef => RDynamicImpl end in
  let sigs := map (fun '(_, _, s, _) => s) (body_fns items) in
  let* (fns0, tg) := analyze_all k o empty_tg sigs in
  let fns := with_cfg_attrs fns0 (body_fns items) in
  let* mode := detect_trait_dependency_mode MImplBlock fns in
  let ind := match ia_kind a with KStatic => IStatic self_ty | KDynRef => IDynamic self_ty end in
  let* impl_block := gen_impl_block o trait_path ind tg MImplBlock mode attrs fns in
  Ok [IImpl (mkImpl (filter (fun x => negb (is_async_trait x)) attrs) unsafety no_generics None self_ty
                    (map iitem_of_body_item items));
      IImpl impl_block].

(** ** entrait_trait *)
Definition plain_identifier_msg : string :=
  "Entrait needs a plain identifier for this parameter, in order to delegate the method.".

Definition unsupported_trait_item : err := EMsg "Entrait does not support this kind of trait item.".

(** [out_trait::analyze_trait]: methods become trait fns with [NoDeps]; associated types are collected
    and forgotten; anything else is an error *)
Fixpoint analyze_trait_items (l : list titem) : result (list trait_fn) :=
  match l with
  | [] => Ok []
  | TFn attrs s _ _ :: rest =>
      if forallb is_pident (p_items (s_inputs s)) then
        let* r := analyze_trait_items rest in Ok (mkTF DNoDeps attrs s (s_async s) :: r)
      else Err (EMsg plain_identifier_msg)
  | TType _ :: rest => analyze_trait_items rest
  | TOther _ :: _ => Err unsupported_trait_item
  end.

Definition trait_contains_async (l : list titem) : bool :=
  existsb (fun t => match t with TFn _ s _ _ => s_async s | _ => false end) l.

Definition entrait_t_param : gparam := mkGP GType [] "EntraitT" [] [].

(** [Punctuated::insert(0, EntraitT)] on the trait's parameters; only the values are printed *)
Definition with_entrait_t (tg : trait_generics) : trait_generics := mkTG (entrait_t_param :: tg_params tg) (tg_where tg).

Definition static_supers : punct toks := p_of_list [[pc "'"; TId "static"]].

Definition first_is_receiver (s : sig) : bool :=
  match p_items (s_inputs s) with ArgRecv _ _ _ _ :: _ => true | _ => false end.

(** [__impl: & 'a? ::entrait::Impl<EntraitT>] / [__impl: ::entrait::Impl<EntraitT>] *)
Definition static_impl_receiver (s : sig) : sig :=
  match p_items (s_inputs s) with
  | ArgRecv _ reference _ _ :: rest =>
      let arg := match reference with
                 | Some l => ArgTyped [] (PIdent false false "__impl" []) (TyRef l false impl_path_fty)
                 | None => ArgTyped [] (PIdent false false "__impl" []) impl_path_fty
                 end in
      mkSig (s_const s) (s_async s) (s_unsafe s) (s_abi s) (s_name s) (s_gen s)
            (mkP (arg :: rest) (p_trail (s_inputs s))) (s_variadic s) (s_output s)
  | _ => s
  end.

Definition receiver_lifetime (s : sig) : option string :=
  match p_items (s_inputs s) with ArgRecv _ r _ _ :: _ => ref_lifetime r | _ => None end.

Definition dynamic_impl_receiver (s : sig) : sig :=
  if first_is_receiver s then
    mkSig (s_const s) (s_async s) (s_unsafe s) (s_abi s) (s_name s) (s_gen s)
          (p_insert 1 (impl_receiver_lt (receiver_lifetime s)) (s_inputs s)) (s_variadic s) (s_output s)
  else s.

Definition map_sig (f : sig -> sig) (tf : trait_fn) : trait_fn :=
  mkTF (tf_deps tf) (tf_attrs tf) (f (tf_sig tf)) (tf_async tf).

Definition no_mock_opts (o : opts) : opts :=
  mkOpts (o_no_deps o) (o_debug o) (o_export o) (o_future_send o) None None None.

(** [gen_impl_delegation_trait_defs] *)
Definition delegation_trait_defs (a : trait_attr) (v : vis) (tg : trait_generics) (fns : list trait_fn)
           (impl_subs : list attr) : result (list item) :=
  match ta_impl_trait a with
  | None => Ok []
  | Some impl_trait =>
      let o := no_mock_opts (ta_opts a) in
      match ta_delegate a with
      | Some (ByTrait del) =>
          let fns' := map (map_sig static_impl_receiver) fns in
          let td := gen_trait_def o TStaticImpl MGeneric impl_subs (Some []) v impl_trait (with_entrait_t tg)
                                  true static_supers fns' MRawTrait in
          let td' := mkTrait (impl_subs ++ t_attrs td) (t_vis td) (t_unsafe td) (t_auto td) (t_name td)
                             (t_gen td) (t_colon td) (t_supers td) (t_items td) in
          Ok [ITrait td';
              ITrait (mkTrait [] [TId "pub"] false false del
                              (mkGen true (p_of_list [mkGP GType [] "T" [] []]) None) false pempty
                              [TType [TId "type"; TId "Target"; pc ":"; TId impl_trait; pc "<"; TId "T"; pc ">"; pc ";"]])]
      | Some (ByRef _) =>
          let fns' := map (map_sig dynamic_impl_receiver) fns in
          let td := gen_trait_def o TDynamicImpl MGeneric impl_subs (Some []) v impl_trait (with_entrait_t tg)
                                  true static_supers fns' MRawTrait in
          let td' := mkTrait (impl_subs ++ t_attrs td) (t_vis td) (t_unsafe td) (t_auto td) (t_name td)
                             (t_gen td) (t_colon td) (t_supers td) (t_items td) in
          Ok [ITrait td']
      | _ => Err (EMsg "Missing delegate_by")
      end
  end.

(** [gen_delegation_method] + [DelegatingMethod::to_tokens] *)
Definition delegation_call (a : trait_attr) (contains_async by_value : bool) (name : string) (args : list toks) : toks :=
  let arglist := join [comma] args in
  let plus_sync := if contains_async then [pc "+"] ++ core_marker "Sync" else [] in
  let via (core_path : list string) (method : string) (impl_trait : string) :=
    [pc "<"; TId "EntraitT"; TId "as"] ++ abs_path core_path ++
    [pc "<"; TId "dyn"; TId impl_trait; pc "<"; TId "EntraitT"; pc ">"] ++ plus_sync ++ [pc ">"; pc ">"] ++
    path_sep ++ [TId method; TG Paren [pc "&"; pc "*"; TId "self"]; pc "."; TId name;
                 TG Paren ([TId "self"; comma] ++ arglist)] in
  match ta_impl_trait a, ta_delegate a with
  | Some impl_trait, Some (ByTrait _) =>
      [pc "<"; TId "EntraitT"] ++ path_sep ++ [TId "Target"; TId "as"; TId impl_trait; pc "<"; TId "EntraitT"; pc ">"; pc ">"] ++
      path_sep ++ [TId name; TG Paren ([TId "self"; comma] ++ arglist)]
  | Some impl_trait, Some (ByRef RAsRef) => via ["core"; "convert"; "AsRef"] "as_ref" impl_trait
  | Some impl_trait, Some (ByRef RBorrow) => via ["core"; "borrow"; "Borrow"] "borrow" impl_trait
  | None, Some (ByRef RAsRef) =>
      [TId "self"; pc "."; TId "as_ref"; TG Paren []; pc "."; TId "as_ref"; TG Paren []; pc "."; TId name; TG Paren arglist]
  | None, Some (ByRef RBorrow) =>
      [TId "self"; pc "."; TId "as_ref"; TG Paren []; pc "."; TId "borrow"; TG Paren []; pc "."; TId name; TG Paren arglist]
  | _, _ =>
      (* a method that takes [self] by value cannot be forwarded through a shared reference *)
      [TId "self"; pc "."; TId (if by_value then "into_inner" else "as_ref"); TG Paren []; pc "."; TId name; TG Paren arglist]
  end.

Fixpoint trait_call_args (l : list fnarg) : result (list toks) :=
  match l with
  | [] => Ok []
  | ArgRecv _ _ _ _ :: rest => trait_call_args rest
  | ArgTyped _ (PIdent _ _ n _) _ :: rest => let* r := trait_call_args rest in Ok ([TId n] :: r)
  | ArgTyped _ (PNon _ _) _ :: _ => Panic "entrait_trait/mod.rs:281 non-ident pattern"
  end.

Definition delegation_method (a : trait_attr) (contains_async : bool) (tf : trait_fn) : result iitem :=
  let s := tf_sig tf in
  let* args := trait_call_args (p_items (s_inputs s)) in
  Ok (IIFn (tf_attrs tf) [] s
        [TG Brace (delegation_call a contains_async (plain_self_by_value s) (s_name s) args ++
                   (if tf_async tf then [pc "."; TId "await"] else []))]).

(** [ImplWhereClause::push_impl_t_bounds] *)
Definition plus_static : toks := [pc "+"; pc "'"; TId "static"].
Definition plus_send : toks := [pc "+"] ++ core_marker "Send".
Definition plus_sync : toks := [pc "+"] ++ core_marker "Sync".

Definition impl_t_bounds (a : trait_attr) (contains_async : bool) (name : string) (tg : trait_generics) : toks :=
  let trait_with_args := [TId name] ++ print_arguments false (tg_params tg) in
  let core_trait (r : ref_delegate) :=
    match r with
    | RAsRef => abs_path ["core"; "convert"; "AsRef"]
    | RBorrow => abs_path ["core"; "borrow"; "Borrow"]
    end in
  [TId "EntraitT"; pc ":"] ++
  match ta_impl_trait a, ta_delegate a with
  | Some _, Some (ByTrait del) => [TId del; pc "<"; TId "EntraitT"; pc ">"] ++ plus_sync ++ plus_static
  | Some impl_trait, Some (ByRef r) =>
      core_trait r ++ [pc "<"; TId "dyn"; TId impl_trait; pc "<"; TId "EntraitT"; pc ">"] ++
      (if contains_async then plus_sync else []) ++ [pc ">"] ++
      (if contains_async then plus_send ++ plus_sync else []) ++ plus_static
  | None, Some (ByRef r) =>
      core_trait r ++ [pc "<"; TId "dyn"] ++ trait_with_args ++ [pc ">"] ++
      (if contains_async then plus_send ++ plus_sync else []) ++ plus_static
  | _, _ => trait_with_args ++ plus_sync ++ (if contains_async then plus_static else [])
  end.

(** [entrait_trait::output_tokens] *)
Definition output_for_trait (a : trait_attr) (h : head) (t : item_trait) : result (list item) :=
  match ta_impl_trait a, ta_delegate a with
  | None, Some (ByTrait _) => Err (EMsg custom_delegate_msg)
  | _, _ =>
      let contains_async := trait_contains_async (t_items t) in
      let* fns := analyze_trait_items (t_items t) in
      let attrs := h_attrs h in
      let v := h_vis h in
      let impl_subs := filter is_async_trait attrs in
      let tg := mkTG (p_items (g_params (t_gen t)))
                     (match g_where (t_gen t) with Some w => w | None => pempty end) in
      let* deleg := delegation_trait_defs a v tg fns impl_subs in
      let trait_def := gen_trait_def (ta_opts a) TTrait MGeneric attrs (Some attrs) v (t_name t) tg
                                     (t_colon t) (t_supers t) fns MRawTrait in
      let* methods := map_res (delegation_method a contains_async) fns in
      let where_ := mk_pred (impl_t_bounds a contains_async (t_name t) tg) :: p_items (tg_where tg) in
      Ok ([ITrait trait_def] ++ deleg ++
          [IImpl (mkImpl impl_subs false
                         (mkGen true (p_of_list (trait_impl_params (tg_params tg))) (where_of_list where_))
                         (Some ([TId (t_name t)] ++ print_arguments false (tg_params tg)))
                         impl_path_toks methods)])
  end.

(** ** lib.rs [invoke] *)
Definition with_fn_opts (a : fn_attr) (o : opts) : fn_attr := mkFnAttr (fa_vis a) (fa_trait a) o.

Definition expand_items (v : variant) (attr_toks : toks) (i : input) : result (list item) :=
  match i with
  | InHeadErr => Err ESyn
  | InFnErr _ | InTraitErr _ | InImplErr _ | InModErr _ => Err ESyn
  | InFn h s body =>
      (* [Input::parse] has consumed a leading [unsafe] (put back into the signature) / [auto] (dropped) *)
      let s' := mkSig (s_const s) (s_async s) (s_unsafe s || h_unsafe h) (s_abi s) (s_name s) (s_gen s)
                      (s_inputs s) (s_variadic s) (s_output s) in
      let* a := parse_fn_attr attr_toks in
      entrait_for_single_fn (with_fn_opts a (apply_variant v (fa_opts a))) (h_attrs h) (h_vis h) s' body
  | InMod h name body sigs _ =>
      if h_unsafe h || h_auto h then Err not_allowed_here
      else
        let* (items, _) := split_body true sigs body in
        let* a := parse_fn_attr attr_toks in
        entrait_for_mod (with_fn_opts a (apply_variant v (fa_opts a))) (h_attrs h) (h_vis h) name items
  | InTrait h t =>
      let* a := parse_trait_attr attr_toks in
      output_for_trait (mkTraitAttr (ta_impl_trait a) (apply_variant v (ta_opts a)) (ta_delegate a)) h t
  | InImpl h trait_path self_ty body sigs _ =>
      if h_auto h then Err not_allowed_here
      else
        let* (items, _) := split_body false sigs body in
        let* a := parse_impl_attr attr_toks in
        output_for_impl (mkImplAttr (ia_kind a) (apply_variant v (ia_opts a))) (h_attrs h) (h_unsafe h)
                        trait_path self_ty items
  end.

(** [syn::Error::into_compile_error] *)
Definition compile_error (msg : string) : toks :=
  abs_path ["core"; "compile_error"] ++ [pc "!"; TG Brace [TLit msg]].

Inductive outcome :=
| OTokens (ts : toks)          (* successful expansion *)
| OError (e : err)             (* a compile_error! invocation *)
| OPanic (site : string)
| OOut (why : string).         (* outside the modelled domain *)

Definition expand (v : variant) (attr_toks : toks) (i : input) : outcome :=
  match expand_items v attr_toks i with
  | Ok items => OTokens (print_items items)
  | Err e => OError e
  | Panic s => OPanic s
  | OutOfDomain w => OOut w
  end.
